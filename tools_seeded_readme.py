#!/venv/bin/python
"""Regenerates the table of seeded/README.md from the meta.json files (the text above the
table is kept)."""
import glob
import json
import os

HERE = os.path.dirname(os.path.abspath(__file__))
path = os.path.join(HERE, "seeded", "README.md")
with open(path) as f:
    head = f.read().split("| id | property |")[0]
rows = []
for d in sorted(glob.glob(os.path.join(HERE, "seeded", "*/"))):
    mid = os.path.basename(d.rstrip("/"))
    with open(os.path.join(d, "meta.json")) as f:
        m = json.load(f)
    c = m.get("confirmed_by_me", {})
    hist = m.get("history_of_detection", "")
    if c.get("check_detected_by"):
        caught = f"yes, by the {c['check_detected_by']} check (schedule defect)"
    elif c.get("check_detected"):
        low = hist.lower()
        caught = "yes (after strengthening)" if hist and not low.startswith("caught from the start") else "yes"
    elif "not caught, by design" in hist.lower():
        caught = "NO (outside the quantifier: needs threads)"
    else:
        caught = "NO"
    needs = " ".join(str(m.get("needs_to_manifest", "")).split())[:140].replace("|", "/")
    rows.append(f"| {mid} | {m.get('property')} | {caught} | {c.get('test_suite_on_patched_tree', '')} | {needs} |")
with open(path, "w") as f:
    f.write(head + "| id | property | caught by the quick check | test suite with patch | needs to manifest |\n|---|---|---|---|---|\n" + "\n".join(rows) + "\n")
print(len(rows), "rows")
