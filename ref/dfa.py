"""Language equivalence of two DFAs by breadth-first search of the product
automaton, independent of automata-lib's own __eq__.  A missing transition is a
dead state."""
from collections import deque


def _parts(dfa):
    return (dfa.transitions, dfa.initial_state, frozenset(dfa.final_states), frozenset(dfa.input_symbols))


def distinguishing_word(a, b, max_pairs=2_000_000):
    """None when L(a) == L(b), otherwise a shortest word accepted by exactly one
    of them."""
    ta, ia, fa, sa = _parts(a)
    tb, ib, fb, sb = _parts(b)
    alphabet = sorted(sa | sb)
    dead = object()
    start = (ia, ib)
    seen = {start}
    queue = deque([(start, "")])
    while queue:
        (qa, qb), word = queue.popleft()
        if ((qa is not dead and qa in fa) != (qb is not dead and qb in fb)):
            return word
        for sym in alphabet:
            na = ta.get(qa, {}).get(sym, dead) if qa is not dead else dead
            nb = tb.get(qb, {}).get(sym, dead) if qb is not dead else dead
            nxt = (na, nb)
            if nxt not in seen:
                seen.add(nxt)
                if len(seen) > max_pairs:
                    raise RuntimeError("product automaton too large")
                queue.append((nxt, word + str(sym)))
    return None


def equivalent(a, b):
    return distinguishing_word(a, b) is None


def accepts(dfa, word):
    t, q, f, _ = _parts(dfa)
    for sym in word:
        q = t.get(q, {}).get(sym)
        if q is None:
            return False
    return q in f
