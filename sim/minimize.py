"""Minimisation of a violating case: ddmin over the list-valued parts of the
case (operation lists, schedule segments, fault plans), then check-specific
argument shrinking, accepting a candidate only when the same violation class
recurs."""
import copy
import time


def _get(case, path):
    cur = case
    for k in path:
        cur = cur[k]
    return cur


def _set(case, path, value):
    cur = case
    for k in path[:-1]:
        cur = cur[k]
    cur[path[-1]] = value


class Budget:
    def __init__(self, max_exec, max_wall):
        self.max_exec = max_exec
        self.deadline = time.monotonic() + max_wall
        self.execs = 0

    def ok(self):
        return self.execs < self.max_exec and time.monotonic() < self.deadline


def ddmin_list(case, path, test, budget):
    """Classic ddmin on the list at `path`; returns the reduced case."""
    items = list(_get(case, path))
    n = 2
    while len(items) >= 1 and budget.ok():
        chunk = max(1, len(items) // n)
        reduced = False
        start = 0
        while start < len(items) and budget.ok():
            cand_items = items[:start] + items[start + chunk:]
            cand = copy.deepcopy(case)
            _set(cand, path, cand_items)
            budget.execs += 1
            if test(cand):
                items = cand_items
                case = cand
                n = max(n - 1, 2)
                reduced = True
            else:
                start += chunk
        if not reduced:
            if chunk == 1:
                break
            n = min(len(items), n * 2)
    return case


def minimize(case, execute, violation, targets, simplify=None, max_exec=600, max_wall=90.0):
    """targets(case) -> list of paths to lists; simplify(case) -> iterator of
    candidate cases with simpler arguments."""
    budget = Budget(max_exec, max_wall)

    def test(cand):
        try:
            out = execute(cand)
        except Exception:  # pylint: disable=broad-except
            return False
        return violation.same_class(out.violation)

    changed = True
    rounds = 0
    while changed and budget.ok() and rounds < 4:
        rounds += 1
        changed = False
        for path in targets(case):
            try:
                before = len(_get(case, path))
            except (KeyError, IndexError, TypeError):
                continue
            case = ddmin_list(case, path, test, budget)
            if len(_get(case, path)) < before:
                changed = True
        if simplify is not None:
            progress = True
            while progress and budget.ok():
                progress = False
                for cand in simplify(case):
                    if not budget.ok():
                        break
                    budget.execs += 1
                    if test(cand):
                        case = cand
                        progress = True
                        changed = True
                        break
    return case, budget.execs
