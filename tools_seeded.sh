#!/bin/bash
# usage: tools_seeded.sh <Cxx> <worktree> <seed_dir_name> <target_id> [runs]
# Confirms a seeded change in its scratch worktree (demo passes clean, fails patched, test suite passes patched),
# runs the quick check of the property against the patched worktree, restores the worktree, and files the change
# under /verif/seeded/<target_id>/ with meta.json extended by what was run.
set -u
P=$1; WT=$2; SD=$3; ID=$4; RUNS=${5:-}
TMPD=$(mktemp -d /tmp/seedrun.XXXXXX); export TMPD
cd "$WT" || exit 9
git checkout -q -- permuta 2>/dev/null
echo "== clean demo"; /venv/bin/python $SD/demo.py > $TMPD/clean.out 2>&1; CLEAN=$?; tail -2 $TMPD/clean.out
git apply $SD/patch.diff || { echo "PATCH DOES NOT APPLY"; exit 8; }
echo "== patched demo"; /venv/bin/python $SD/demo.py > $TMPD/patched.out 2>&1; PATCHED=$?; tail -3 $TMPD/patched.out
if [ -n "${SKIP_TESTS:-}" ] && [ -f /verif/seeded/$ID/meta.json ]; then
  /venv/bin/python -c "import json;print(json.load(open('/verif/seeded/$ID/meta.json'))['confirmed_by_me']['test_suite_on_patched_tree'])" > $TMPD/tests.out; echo "== test suite: reusing earlier confirmation: $(cat $TMPD/tests.out)"
else
echo "== test suite (patched)"; timeout 1500 /venv/bin/python -m pytest -q -p no:cacheprovider -x -n 8 --timeout=900 2>&1 | tail -1 | tee $TMPD/tests.out
fi
echo "== check $P against patched tree"
cd /verif
EXTRA=""; [ -n "$RUNS" ] && EXTRA="--runs $RUNS"
VERIF_EVIDENCE_DIR=$TMPD/ev VERIF_REPLAY_DIR=$TMPD/rp ./check $P --repo "$WT" $EXTRA > $TMPD/check.out 2>&1; CHK=$?
grep -E "^violation:|^VIOLATION|HARNESS|quick:" $TMPD/check.out | cut -c1-400
cd "$WT"; git checkout -q -- permuta; rm -rf dfa_db
echo "clean_exit=$CLEAN patched_exit=$PATCHED check_exit=$CHK"
mkdir -p /verif/seeded/$ID
cp $SD/patch.diff /verif/seeded/$ID/patch.diff; cp $SD/demo.py /verif/seeded/$ID/demo.py
/venv/bin/python - "$SD/meta.json" "/verif/seeded/$ID/meta.json" "$P" "$CLEAN" "$PATCHED" "$CHK" <<'PY'
import json, sys, os
src, dst, prop, clean, patched, chk = sys.argv[1:]
try: meta = json.load(open(src))
except Exception: meta = {}
try:
    prev = json.load(open(dst))
    for k in ("history_of_detection",):
        if k in prev: meta[k] = prev[k]
    keep = {k: v for k, v in prev.get("confirmed_by_me", {}).items() if k in ("check_detected_by", "also_run")}
except Exception:
    keep = {}
first = [l for l in open(os.environ['TMPD']+'/check.out') if l.startswith('violation:')]
meta.update({
 "property": prop,
 "confirmed_by_me": {
   "demo_on_clean_tree_exit": int(clean), "demo_on_patched_tree_exit": int(patched),
   "test_suite_on_patched_tree": open(os.environ['TMPD']+'/tests.out').read().strip(),
   "check_command": f"./check {prop} --repo <scratch worktree with patch applied>",
   "check_exit": int(chk), "check_detected": int(chk) == 1,
   "first_violation_reported": first[0].strip()[:400] if first else "",
 }})
meta["confirmed_by_me"].update(keep)
json.dump(meta, open(dst, 'w'), indent=1)
PY
