"""Single-thread cooperative simulator: an operation history is a list of
JSON op records; the library's lazy iterators are the tasks, suspended at
`yield` and resumed whenever an op of the history says so.  The executor
tolerates every sub-list of a history (an op whose subject does not exist is a
no-op), which is what makes ddmin and replay trivial."""
from . import core


class LiveIter:
    __slots__ = ("iid", "it", "items", "meta", "exhausted", "closed", "error", "steps_taken")

    def __init__(self, iid, it, meta):
        self.iid = iid
        self.it = it
        self.items = []
        self.meta = meta
        self.exhausted = False
        self.closed = False
        self.error = None
        self.steps_taken = 0


class Hist:
    """State of one simulated history."""

    def __init__(self, keep_events=400):
        self.log = core.EventLog(keep_events)
        self.out = core.Outcome()
        self.iters = {}
        self.violations = []
        self.op_index = -1

    # -- violations ------------------------------------------------------------
    def violate(self, kind, key, detail):
        self.violations.append(core.Violation(kind, key, f"op #{self.op_index}: {detail}"))

    def finish(self):
        self.out.digest = self.log.digest()
        if self.violations:
            self.out.violation = self.violations[0]
        self.out.steps = self.log.count
        return self.out

    # -- iterator tasks ----------------------------------------------------------
    def new_iter(self, iid, make, meta, conv=None):
        """make() returns the library iterator; creation itself may raise."""
        try:
            it = make()
        except Exception as exc:  # pylint: disable=broad-except
            li = LiveIter(iid, None, meta)
            li.error = (type(exc).__name__, str(exc)[:200])
            li.exhausted = True
            self.iters[iid] = li
            self.log.add("iter_new_exc", iid, li.error[0])
            return li
        li = LiveIter(iid, iter(it), meta)
        li.meta["conv"] = conv
        self.iters[iid] = li
        self.log.add("iter_new", iid)
        return li

    def step(self, iid, k):
        """Advance iterator iid by up to k items.  Returns (live iterator or
        None, list of new plain items)."""
        li = self.iters.get(iid)
        if li is None or li.exhausted or li.closed:
            return None, []
        conv = li.meta.get("conv") or (lambda x: x)
        new = []
        for _ in range(k):
            try:
                item = next(li.it)
            except StopIteration:
                li.exhausted = True
                break
            except Exception as exc:  # pylint: disable=broad-except
                li.error = (type(exc).__name__, str(exc)[:200])
                li.exhausted = True
                break
            new.append(conv(item))
        li.items.extend(new)
        li.steps_taken += 1
        self.log.add("iter_step", iid, core.canon(new), li.exhausted)
        return li, new

    def close(self, iid):
        li = self.iters.get(iid)
        if li is None or li.closed or li.it is None:
            return None
        li.closed = True
        try:
            close = getattr(li.it, "close", None)
            if close is not None:
                close()
        except Exception as exc:  # pylint: disable=broad-except
            li.error = (type(exc).__name__, str(exc)[:200])
        self.log.add("iter_close", iid)
        return li

    def abandon(self, iid):
        li = self.iters.pop(iid, None)
        if li is not None:
            li.it = None
            self.log.add("iter_abandon", iid)
        return li


class SimInterrupt(BaseException):
    """An asynchronous interruption of a library call (Ctrl-C, a signal handler
    raising, MemoryError, RecursionError ...) at a point chosen by the seed."""


def run_interruptible(fn, at, prefixes):
    """Run fn(); raise SimInterrupt inside it at the `at`-th executed line of
    code living under one of `prefixes` (line events of sys.settrace: the
    interruption point is a deterministic function of `at`).  Returns
    ("ok", result, lines) or ("interrupted", None, at).  Process-wide state the
    call had modified so far stays as it is - that is the fault."""
    import sys  # pylint: disable=import-outside-toplevel

    count = [0]
    fired = [False]
    prefixes = tuple(prefixes)

    import linecache  # pylint: disable=import-outside-toplevel

    def local(frame, event, _arg):
        if event == "line":
            count[0] += 1
            if count[0] >= at and not fired[0]:
                # Not on a `with` line: the line event of a with statement also fires when
                # the block is left, just before __exit__ is called; an exception injected
                # there would skip __exit__ (a lock would stay held), which says something
                # about Python's with statement, not about the library.
                text = linecache.getline(frame.f_code.co_filename, frame.f_lineno).lstrip()
                if not text.startswith(("with ", "async with ")):
                    fired[0] = True
                    raise SimInterrupt()
        return local

    def glob(frame, event, _arg):
        if event == "call" and frame.f_code.co_filename.startswith(prefixes):
            return local
        return None

    old = sys.gettrace()
    sys.settrace(glob)
    try:
        res = fn()
        return ("ok", res, count[0])
    except SimInterrupt:
        return ("interrupted", None, at)
    finally:
        sys.settrace(old)


def _container_slots(mods):
    """(owner, attribute name) of the process-wide containers of the given modules: module
    globals and class attributes that are dicts / lists / sets / deques or functools caches.
    Slots, not objects: a rebinding (clear_cache assigning a new dict) is followed."""
    import collections  # pylint: disable=import-outside-toplevel

    kinds = (dict, list, set, collections.deque)
    slots = []
    for mod in mods:
        for name, val in list(vars(mod).items()):
            if name.startswith("__"):
                continue
            try:
                is_cache = callable(getattr(val, "cache_info", None))
            except Exception:  # pylint: disable=broad-except
                is_cache = False  # a stand-in object that refuses unknown attributes
            if isinstance(val, kinds) or is_cache:
                slots.append((mod, name))
            elif isinstance(val, type) and getattr(val, "__module__", None) == mod.__name__:
                for cname, cval in list(vars(val).items()):
                    raw = getattr(cval, "__func__", cval)
                    if isinstance(cval, kinds) or callable(getattr(raw, "cache_info", None)):
                        slots.append((val, cname))
    return slots


def process_state_fingerprint(slots):
    """A cheap fingerprint of process-wide library state: sizes of the top-level
    containers and of what they hold one and two levels down."""
    total = 0
    for owner, name in slots:
        try:
            c = vars(owner).get(name)
            c = getattr(c, "__func__", c)
            if hasattr(c, "cache_info"):
                total = total * 31 + c.cache_info().currsize
                continue
            total = total * 31 + len(c) + (id(c) & 0xFFFF)
            items = list(c.values()) if isinstance(c, dict) else list(c)
            for it in items[:48]:
                if isinstance(it, (dict, list, set, tuple, frozenset)):
                    total = total * 31 + len(it)
                    inner = list(it.values()) if isinstance(it, dict) else list(it)
                    for it2 in inner[:12]:
                        if isinstance(it2, (dict, list, set)):
                            total = total * 31 + len(it2)
                            if isinstance(it2, list):
                                for it3 in it2[-3:]:
                                    if isinstance(it3, (dict, list, set)):
                                        total = total * 31 + len(it3)
        except Exception:  # pylint: disable=broad-except
            pass
        total &= (1 << 61) - 1
    return total


def state_change_points(fn, prefixes, mods, max_lines=2_000_000):
    """Run fn() in a forked child under a line tracer and return, for the executed library
    lines after which the process-wide state fingerprint differed from before, the pairs
    (1-based index of the next line, (file, line number) of the line that changed the state):
    the places where an interruption would leave that state half updated.  The parent's
    state is untouched."""
    import os  # pylint: disable=import-outside-toplevel
    import pickle  # pylint: disable=import-outside-toplevel
    import sys  # pylint: disable=import-outside-toplevel

    rfd, wfd = os.pipe()
    pid = os.fork()
    if pid == 0:
        try:
            os.close(rfd)
            prefixes = tuple(prefixes)
            count = [0]
            slots = _container_slots(mods)
            last = [process_state_fingerprint(slots)]
            changes = []

            prev = [None]

            def local(frame, event, _arg):
                if event == "line":
                    count[0] += 1
                    fp = process_state_fingerprint(slots)
                    if fp != last[0]:
                        last[0] = fp
                        # the line executed just before changed the state: remember which one
                        changes.append((count[0], prev[0]))
                    prev[0] = (frame.f_code.co_filename, frame.f_lineno)
                    if count[0] > max_lines:
                        raise SimInterrupt()
                return local

            def glob(frame, event, _arg):
                if event == "call" and frame.f_code.co_filename.startswith(prefixes):
                    return local
                return None

            sys.settrace(glob)
            try:
                fn()
            except BaseException:  # pylint: disable=broad-except
                pass
            finally:
                sys.settrace(None)
            os.write(wfd, pickle.dumps((changes[:5000], count[0])))
        finally:
            os._exit(0)  # pylint: disable=protected-access
    os.close(wfd)
    with os.fdopen(rfd, "rb") as f:
        data = f.read()
    os.waitpid(pid, 0)
    if not data:
        return [], 0
    return pickle.loads(data)


def permuta_modules():
    import sys  # pylint: disable=import-outside-toplevel

    return [m for n, m in sorted(sys.modules.items()) if (n == "permuta" or n.startswith("permuta.")) and m is not None]


def guided_interrupt_at(fn, prefixes, pick):
    """Where to interrupt fn(): right after a line that changed process-wide library state
    (found by a dry run in a forked child), chosen by `pick` in [0, 1).  None when the call
    changes no such state."""
    changes, _total = state_change_points(fn, prefixes, permuta_modules())
    if not changes:
        return None
    # first a state-changing *site* (source line), then one of its occurrences: a loop that
    # fills a small table once must not drown in the thousands of state changes of a busy memo
    sites = []
    by_site = {}
    for idx, site in changes:
        if site not in by_site:
            by_site[site] = []
            sites.append(site)
        by_site[site].append(idx)
    x = pick * len(sites)
    k = min(len(sites) - 1, int(x))
    occ = by_site[sites[k]]
    return occ[min(len(occ) - 1, int((x - k) * len(occ)))] + 1


def snapshot_process_state(mods):
    """The contents of the process-wide containers of the given modules (see
    _container_slots), to be taken while they are pristine.  Enum internals and dunder
    attributes are left alone."""
    import copy  # pylint: disable=import-outside-toplevel
    import enum  # pylint: disable=import-outside-toplevel

    snap = []
    for owner, name in _container_slots(mods):
        if name.startswith("__") or (isinstance(owner, type) and issubclass(owner, enum.Enum)):
            continue
        val = vars(owner).get(name)
        raw = getattr(val, "__func__", val)
        if callable(getattr(raw, "cache_info", None)):
            snap.append((owner, name, None))
        else:
            try:
                snap.append((owner, name, copy.deepcopy(val)))
            except Exception:  # pylint: disable=broad-except
                pass
    return snap


def restore_process_state(snap):
    """Put the process-wide containers back to the snapshot (functools caches are emptied):
    the next history starts where a fresh process would, so that what a call does on first
    use - and where an interruption guided by state changes lands - is a function of the
    case alone."""
    import copy  # pylint: disable=import-outside-toplevel

    for owner, name, saved in snap:
        cur = vars(owner).get(name)
        raw = getattr(cur, "__func__", cur)
        try:
            if saved is None:
                if callable(getattr(raw, "cache_clear", None)):
                    raw.cache_clear()
            elif isinstance(cur, dict) and isinstance(saved, dict):
                cur.clear()
                cur.update(copy.deepcopy(saved))
            elif isinstance(cur, list) and isinstance(saved, list):
                cur[:] = copy.deepcopy(saved)
            elif isinstance(cur, set) and isinstance(saved, set):
                cur.clear()
                cur.update(copy.deepcopy(saved))
            elif hasattr(cur, "clear") and hasattr(cur, "extend"):
                cur.clear()
                cur.extend(copy.deepcopy(saved))
        except Exception:  # pylint: disable=broad-except
            pass
