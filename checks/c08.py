"""C08 -- equality, hashing and ordering of permutations, patterns and bases are
coherent; an object's hash never changes, whatever else the process allocates.

histsim + allocsim: a pool of objects (most with an equal twin built by another
route) is driven through a seeded history of hash / set / dict / comparison /
sort operations with allocation-history faults between them: objects of chosen
pymalloc size classes held and released, temporaries churned, deep recursion,
garbage collections.
"""
import copy
import gc
import random

from sim import allocsim, core, histsim

from . import common

PROPERTY = "C08"
LEVEL = "exploration"
RULE = (
    "each seed -> pool of 6-20 objects (Perm, MeshPatt, Bivincular/Vincular/CovincularPatt, Basis, MeshBasis; most "
    "with an equal twin built by another route) and a history of 10-40 ops (hash, set/dict insert and lookup "
    "through twins, six-operator comparisons, transitivity triples, sorted() of shuffles, allocation faults); "
    "non-trivial = at least one allocation fault happened between two hash computations of one object and at "
    "least one cross-class pair was compared or looked up; distinct = distinct event-log digest"
)
ABSTRACTION = "sequence of (op kind, class names of the operands)"
COMPONENTS = {
    "real": ["Perm / MeshPatt / BivincularPatt / VincularPatt / CovincularPatt / Basis / MeshBasis __eq__ __hash__ __lt__ __le__ __gt__ __ge__",
             "CPython set / dict / sorted", "CPython pymalloc"],
    "simulated": ["allocation history between observations (allocsim: held slot objects per size class, churn, recursion, gc)"],
}
ASSUMPTIONS = ["pymalloc hands a freed block out again unless it is taken: address-derived hashes are exposed by holding blocks (robust in practice, not guaranteed by the language)"]
EXPECTED_PROBES = ["alloc_between_hashes", "cross_class_eq", "cross_class_order", "lookup_through_twin", "sorted_heterogeneous",
                   "basis_kinds_compared", "transitivity_triple", "vinc_vs_cov", "id_reused", "derived_from_used_object", "interrupted_hash", "flood", "equal_hash_unequal_objects", "interrupted_comparison"]


def plan(tier):
    if tier == "quick":
        return {"runs": 40000, "chunk": 250, "wall_cap": 150, "extra_hashseeds": ["1", "4242"], "extra_runs": 3000}
    return {"runs": 1500000, "chunk": 1000, "wall_cap": 900, "extra_hashseeds": ["1", "4242"], "extra_runs": 100000}


def prepare(tier):  # pylint: disable=unused-argument
    pass


# --- descriptors ---------------------------------------------------------------------


def _biv_shading(n, idx, val):
    sh = set()
    for i in idx:
        sh.update((i, v) for v in range(n + 1))
    for v in val:
        sh.update((i, v) for i in range(n + 1))
    return sh


def absval(d):
    t = d["t"]
    if t == "perm":
        return ("perm", tuple(d["perm"]))
    if t == "mesh":
        return ("mesh", tuple(d["perm"]), frozenset(tuple(c) for c in d["shading"]))
    if t == "biv":
        return ("mesh", tuple(d["perm"]), frozenset(_biv_shading(len(d["perm"]), d["idx"], d["val"])))
    if t == "vinc":
        return ("mesh", tuple(d["perm"]), frozenset(_biv_shading(len(d["perm"]), d["idx"], [])))
    if t == "cov":
        return ("mesh", tuple(d["perm"]), frozenset(_biv_shading(len(d["perm"]), [], d["val"])))
    if t == "basis":
        return ("basis", frozenset(tuple(p) for p in d["perms"]))
    if t == "meshbasis":
        return ("meshbasis", frozenset(absval(i)[1:] if i["t"] != "perm" else (tuple(i["perm"]), frozenset()) for i in d["items"]))
    raise ValueError(t)


def group(d):
    if d["t"] == "perm":
        return "perm"
    if d["t"] in ("mesh", "biv", "vinc", "cov"):
        return "meshlike"
    return "basis"


def _nothing():
    return None


def build(d, before_top=None):
    """The object described by d.  before_top() is called when every part has been built and
    only the top-level object is still to be created (used to free an aimed-at block at the
    last moment, see allocsim.aim)."""
    if before_top is None:
        before_top = _nothing
    pm = common.lazy_permuta()
    from permuta.patterns.bivincularpatt import BivincularPatt, CovincularPatt, VincularPatt  # pylint: disable=import-outside-toplevel
    from permuta.perm_sets.basis import Basis, MeshBasis  # pylint: disable=import-outside-toplevel

    t = d["t"]
    if t == "perm":
        r = d.get("route", "fresh")
        p = tuple(d["perm"])
        before_top()
        if r == "fresh":
            return pm.Perm(p)
        if r == "list":
            return pm.Perm(list(p))
        if r == "std":
            return pm.Perm.to_standard([2 * v + 5 for v in p])
        if r == "str" and len(p) <= 10 and p:
            return pm.Perm.from_string("".join(str(v) for v in p))
        return pm.Perm(p)
    if t == "mesh":
        cells = [tuple(c) for c in d["shading"]]
        o = d.get("order", "given")
        if o == "reversed":
            cells = list(reversed(cells))
        elif o == "frozenset":
            cells = frozenset(cells)
        elif o == "set":
            cells = set(cells)  # the caller's own mutable set: the pattern must not depend on it
        elif o == "generator":
            cells = (c for c in list(cells))
        elif o == "dup":
            cells = cells + cells[::-1]
        elif o == "sorted":
            cells = sorted(cells)
        und = pm.Perm(d["perm"])
        before_top()
        return pm.MeshPatt(und, cells)
    if t == "biv":
        und = pm.Perm(d["perm"])
        before_top()
        return BivincularPatt(und, d["idx"], d["val"])
    if t == "vinc":
        und = pm.Perm(d["perm"])
        before_top()
        return VincularPatt(und, d["idx"])
    if t == "cov":
        und = pm.Perm(d["perm"])
        before_top()
        return CovincularPatt(und, d["val"])
    if t == "basis":
        perms = [pm.Perm(p) for p in d["perms"]]
        r = d.get("route", "args")
        before_top()
        if r == "rev":
            return Basis(*reversed(perms))
        if r == "dup":
            return Basis(*(perms + perms))
        if r == "from_iterable":
            return Basis.from_iterable(iter(perms))
        if r == "from_string" and all(0 < len(p) <= 9 for p in perms):
            return Basis.from_string("_".join("".join(str(v + 1) for v in p) for p in perms))
        return Basis(*perms)
    if t == "meshbasis":
        items = [build(i) for i in d["items"]]
        r = d.get("route", "args")
        before_top()
        if r == "rev":
            return MeshBasis(*reversed(items))
        if r == "dup":
            return MeshBasis(*(items + items))
        if r == "from_iterable":
            return MeshBasis.from_iterable(iter(items))
        return MeshBasis(*items)
    raise ValueError(t)


# --- generation ------------------------------------------------------------------------

_M64 = (1 << 64) - 1


def colliding_shadings(n, rng):
    """Two disjoint, equally large sets of cells of an n-pattern whose frozensets
    have the same hash (CPython's frozenset hash XORs one scrambled word per
    element, so a linear dependency over GF(2) among the (n+1)^2 words gives a
    collision; needs (n+1)^2 > 64, i.e. n = 8).  Unequal objects with equal hashes
    are legal input; anything keyed by the hash alone confuses them."""
    def word(cell):
        h = hash(cell) & _M64
        return (((h ^ 89869747) ^ ((h << 16) & _M64)) * 3644798167) & _M64

    cells = [(a, b) for a in range(n + 1) for b in range(n + 1)]
    rng.shuffle(cells)
    basis = {}
    for i, c in enumerate(cells):
        v, mask = word(c), 1 << i
        while v:
            p = v.bit_length() - 1
            if p not in basis:
                basis[p] = (v, mask)
                break
            v ^= basis[p][0]
            mask ^= basis[p][1]
        if v == 0:
            dep = [cells[j] for j in range(len(cells)) if mask >> j & 1]
            if len(dep) % 2 == 0 and len(dep) >= 2:
                a, b = dep[: len(dep) // 2], dep[len(dep) // 2:]
                if hash(frozenset(a)) == hash(frozenset(b)):
                    rest = [c2 for c2 in cells if c2 not in dep]
                    return a, b, rest
    return None



def _gen_meshlike(rng, maxk):
    k = rng.choice([0, 1, 1, 2, 2, 2] + [3, 3] * (maxk >= 3) + [4, 4] * (maxk >= 4) + [5] * (maxk >= 5))
    perm = common.rand_perm(rng, k)
    r = rng.random()
    def sub():
        if rng.random() < 0.12:
            return list(range(k + 1))  # a fully shaded direction
        return sorted(i for i in range(k + 1) if rng.random() < 0.4)

    if r < 0.3:
        return {"t": "mesh", "perm": perm, "shading": common.rand_shading(rng, k), "order": "given"}
    if r < 0.55:
        return {"t": "biv", "perm": perm, "idx": sub(), "val": sub()}
    if r < 0.8:
        return {"t": "vinc", "perm": perm, "idx": sub()}
    return {"t": "cov", "perm": perm, "val": sub()}


def _twin(rng, d):
    """An equal object by another route."""
    t = d["t"]
    if t == "perm":
        return dict(d, route=rng.choice(["fresh", "list", "std", "str"]))
    if t == "mesh":
        return dict(d, order=rng.choice(["reversed", "frozenset", "dup", "sorted", "set", "generator"]))
    if t in ("biv", "vinc", "cov"):
        n = len(d["perm"])
        idx, val = d.get("idx", []), d.get("val", [])
        full = list(range(n + 1))
        if sorted(set(idx)) == full or sorted(set(val)) == full:
            # everything is shaded: any other adjacency lists containing a full side
            # describe the same pattern
            other = sorted(i for i in full if rng.random() < 0.5)
            choice = rng.choice(["vinc", "cov", "biv_idx", "biv_val"])
            if choice == "vinc":
                return {"t": "vinc", "perm": d["perm"], "idx": full}
            if choice == "cov":
                return {"t": "cov", "perm": d["perm"], "val": full}
            if choice == "biv_idx":
                return {"t": "biv", "perm": d["perm"], "idx": full, "val": other}
            return {"t": "biv", "perm": d["perm"], "idx": other, "val": full}
        r = rng.random()
        if r < 0.45:
            cells = sorted(_biv_shading(n, idx, val))
            rng.shuffle(cells)
            return {"t": "mesh", "perm": d["perm"], "shading": [list(c) for c in cells], "order": "given"}
        if r < 0.75:
            return {"t": "biv", "perm": d["perm"], "idx": list(reversed(idx)) + idx[:1], "val": val + val[-1:]}
        if not val:
            # the same class from another spelling of the adjacency list (unsorted, repeated entries)
            return {"t": "vinc", "perm": d["perm"], "idx": list(reversed(idx)) + list(idx[-1:]) if rng.random() < 0.6 else list(idx)}
        if not idx:
            return {"t": "cov", "perm": d["perm"], "val": list(val) + list(val[:1]) if rng.random() < 0.6 else list(val)}
        return {"t": "biv", "perm": d["perm"], "idx": list(idx), "val": list(val)}
    if t == "basis":
        return dict(d, route=rng.choice(["rev", "dup", "from_iterable", "from_string"]))
    if t == "meshbasis":
        return dict(d, route=rng.choice(["rev", "dup", "from_iterable"]), items=[_twin(rng, i) if rng.random() < 0.5 else i for i in d["items"]])
    raise ValueError(t)


def _neighbour(rng, d):
    """A nearly equal but different object (same class, one detail changed)."""
    d = copy.deepcopy(d)
    t = d["t"]
    if t == "perm" and len(d["perm"]) >= 2:
        p = d["perm"]
        i = rng.randrange(len(p) - 1)
        p[i], p[i + 1] = p[i + 1], p[i]
        d["route"] = "fresh"
        return d
    if t == "mesh":
        k = len(d["perm"])
        c = [rng.randint(0, k), rng.randint(0, k)]
        if c in d["shading"]:
            d["shading"].remove(c)
        else:
            d["shading"].append(c)
        return d
    if t in ("biv", "vinc", "cov"):
        key = "idx" if t in ("biv", "vinc") and (t == "vinc" or rng.random() < 0.5) else "val"
        k = len(d["perm"])
        v = rng.randint(0, k)
        if v in d[key]:
            d[key] = [x for x in d[key] if x != v]
        else:
            d[key] = sorted(d[key] + [v])
        return d
    if t == "basis" and d["perms"]:
        n = len(d["perms"][0])
        cand = common.rand_perm(rng, n)
        if cand not in d["perms"]:
            d["perms"] = sorted(d["perms"][:-1] + [cand])
        d["route"] = "args"
        return d
    if t == "meshbasis" and d["items"]:
        d["items"] = [_neighbour(rng, d["items"][0])] + d["items"][1:]
        d["route"] = "args"
        return d
    return d


def gen_case(rng, tier):
    maxk = 3 if tier == "quick" else 4
    if rng.random() < 0.06:
        maxk += 2
    pool = []
    target = rng.randint(6, 20)
    while len(pool) < target:
        r = rng.random()
        if r < 0.25:
            d = {"t": "perm", "perm": common.rand_perm(rng, rng.choice([0, 1, 2, 2, 3, 3, 4])), "route": "fresh"}
        elif r < 0.75:
            d = _gen_meshlike(rng, maxk)
        elif r < 0.88:
            n = rng.choice([1, 2, 3, 3])
            perms = {tuple(common.rand_perm(rng, n)) for _ in range(rng.choice([1, 2, 3]))}
            d = {"t": "basis", "perms": [list(p) for p in sorted(perms)], "route": "args"}
        else:
            n = rng.choice([1, 2, 2, 3])
            items, seen = [], set()
            for _ in range(rng.choice([1, 2, 2])):
                m = _gen_meshlike(rng, maxk)
                m["perm"] = common.rand_perm(rng, n)
                if tuple(m["perm"]) in seen:
                    continue
                seen.add(tuple(m["perm"]))
                for key in ("idx", "val"):
                    if key in m:
                        m[key] = [x for x in m[key] if x <= n]
                if m["t"] == "mesh":
                    m["shading"] = common.rand_shading(rng, n)
                items.append(m)
            if rng.random() < 0.3:
                p = common.rand_perm(rng, n)
                if tuple(p) not in seen:
                    items.append({"t": "perm", "perm": p, "route": "fresh"})
            d = {"t": "meshbasis", "items": items, "route": "args"}
        pool.append(d)
        r2 = rng.random()
        if r2 < 0.55:
            pool.append(_twin(rng, d))
        elif r2 < 0.75:
            pool.append(_neighbour(rng, d))
        if d["t"] == "basis" and rng.random() < 0.5:
            # the mesh-basis spelling of the same patterns: never equal to the Basis
            pool.append({"t": "meshbasis", "items": [{"t": "perm", "perm": p, "route": "fresh"} for p in d["perms"]], "route": "args"})
    if rng.random() < 0.03:
        # two different mesh patterns with the same hash (and a third one between them)
        col = colliding_shadings(8, rng)
        if col is not None:
            a, b, rest = col
            common_cells = rest[: rng.randint(0, 6)]
            perm = common.rand_perm(rng, 8)
            for cells in (a + common_cells, b + common_cells, sorted(a + common_cells)[:-1] + [max(b)]):
                pool.append({"t": "mesh", "perm": perm, "shading": [list(c) for c in cells], "order": "given"})
    rank_twins = None
    if rng.random() < 0.06:
        # two mesh patterns of different lengths whose shadings have the same rank integer
        # (bit x*(n+1)+y per cell): anything keyed by rank() alone confuses them
        n1, n2 = rng.sample([1, 2, 3, 4], 2)
        ncells = rng.randint(4, min((n1 + 1) ** 2, (n2 + 1) ** 2, 9))
        bits = rng.sample(range(min((n1 + 1) ** 2, (n2 + 1) ** 2)), ncells)
        rank_twins = []
        cells_of = {}
        for n in (n1, n2):
            perm = common.rand_perm(rng, n)
            cells = [[b // (n + 1), b % (n + 1)] for b in bits]
            cells_of[n] = (perm, cells)
            base = {"t": "mesh", "perm": perm, "shading": cells, "order": "given"}
            rank_twins.append(len(pool))
            pool.extend([base, _twin(rng, base), _neighbour(rng, base)])
        # on the larger grid also the pattern that really has the cells of the smaller one
        big, small = max(n1, n2), min(n1, n2)
        pool.append({"t": "mesh", "perm": cells_of[big][0], "shading": cells_of[small][1], "order": "given"})
        rank_twins.append(len(pool) - 1)
    groups = {}
    for i, d in enumerate(pool):
        groups.setdefault(group(d), []).append(i)
    pool_initial = copy.deepcopy(pool)
    ops = []
    nops = rng.randint(10, 40) if rng.random() >= 0.03 else rng.randint(80, 200)  # swarm: a few long histories
    tags = 0

    def pick(g=None):
        if g is None or g not in groups:
            return rng.randrange(len(pool))
        return rng.choice(groups[g])

    def pair(g):
        a = pick(g)
        # prefer the neighbour in the pool (twin / near twin)
        if rng.random() < 0.5 and a + 1 < len(pool) and group(pool[a + 1]) == g:
            return a, a + 1
        return a, pick(g)

    for _ in range(nops):
        r = rng.random()
        if r < 0.2:
            ops.append({"op": "hash", "obj": pick()})
            if rng.random() < 0.15:
                # an earlier hash computation of the same object that was interrupted part-way
                ops.insert(len(ops) - 1, {"op": "interrupted_hash", "obj": ops[-1]["obj"], "at": rng.randint(1, 12)})
        elif r < 0.3:
            ops.append({"op": "insert", "obj": pick(), "cont": rng.choice(["set", "dict"])})
        elif r < 0.42:
            ops.append({"op": "lookup", "obj": pick(), "cont": rng.choice(["set", "dict"])})
        elif r < 0.5:
            a = pick()
            b = a + 1 if a + 1 < len(pool) and rng.random() < 0.6 else pick()
            ops.append({"op": "eq", "a": a, "b": b})
        elif r < 0.64:
            g = rng.choice(["meshlike", "meshlike", "perm"])
            if g in groups:
                a, b = pair(g)
                if rng.random() < 0.12:
                    # an earlier comparison of the same two objects that was interrupted part-way
                    ops.append({"op": "interrupted_cmp", "a": a, "b": b, "which": rng.choice(["lt", "le", "gt", "ge", "eq"]),
                                "at": rng.randint(1, 14) if rng.random() < 0.5 else {"guided": round(rng.random(), 3)}})
                ops.append({"op": "cmp", "a": a, "b": b})
        elif r < 0.7:
            g = rng.choice(["meshlike", "perm"])
            if g in groups and len(groups[g]) >= 3:
                ops.append({"op": "triple", "idx": [pick(g) for _ in range(3)]})
        elif r < 0.77:
            g = rng.choice(["meshlike", "meshlike", "perm"])
            if g in groups and len(groups[g]) >= 2:
                idx = [pick(g) for _ in range(rng.randint(2, 8))]
                ops.append({"op": "sorted", "idx": idx, "seeds": [rng.getrandbits(30), rng.getrandbits(30)]})
        else:
            rr = rng.random()
            if rr < 0.3:
                k = rng.choice([1, 2, 4, 8])
                slots = [rng.choice(allocsim.ALL_SLOT_COUNTS) for _ in range(k)] if rng.random() < 0.5 else list(allocsim.ALL_SLOT_COUNTS)
                ops.append({"op": "alloc_hold", "slots": slots, "count": rng.choice([1, 2, 5, 50]), "tag": tags})
                tags += 1
            elif rr < 0.4:
                ops.append({"op": "alloc_misc", "count": rng.choice([1, 3, 20]), "tag": tags})
                tags += 1
            elif rr < 0.55 and tags:
                ops.append({"op": "alloc_release", "tag": rng.randrange(tags), "every": rng.choice([1, 1, 2, 3])})
            elif rr < 0.7:
                ops.append({"op": "churn", "n": rng.choice([10, 100, 1000])})
            elif rr < 0.8:
                ops.append({"op": "recurse", "depth": rng.choice([10, 100, 400])})
            elif rr < 0.9:
                ops.append({"op": "gc"})
            elif rr < 0.93:
                ops.append({"op": "rebuild", "obj": pick()})
            elif rr < 0.97:
                # an equal value obtained through a library operation on an object that
                # has already been hashed / compared (involutions applied twice, shade)
                g = rng.choice(["meshlike", "meshlike", "perm"])
                if g in groups:
                    i = pick(g)
                    how = rng.choice(["rr", "cc", "ii", "rot4", "shade", "shade", "shade_same", "add_point", "add_point", "sub_mesh"] if g == "meshlike" else ["rr", "cc", "ii", "rot4"])
                    k = len(pool[i]["perm"])
                    cells = [[rng.randint(0, k), rng.randint(0, k)] for _ in range(rng.randint(1, 3))]
                    ops.append({"op": "derive", "obj": i, "how": how, "cells": cells})
            else:
                # id reuse: free one object, build a different one of the same
                # kind where it was, compare it with its own twin
                i = pick()
                nd = _neighbour(rng, pool[i])
                ops.append({"op": "replace", "obj": i, "new": nd, "twin": _twin(rng, nd)})
                pool[i] = nd
    if rng.random() < 0.03:
        # more distinct underlying permutations than any bounded cache is likely to hold
        ops.insert(rng.randrange(len(ops) + 1), {"op": "flood", "n": rng.choice([1500, 5000]), "then": [pick() for _ in range(4)]})
    if rank_twins is not None:
        i1, i2, i3 = rank_twins
        big_base = i1 if len(pool_initial[i1]["perm"]) > len(pool_initial[i2]["perm"]) else i2
        small_base = i2 if big_base == i1 else i1
        seq = [{"op": "cmp", "a": small_base, "b": small_base + 2}, {"op": "cmp", "a": big_base, "b": big_base + 2},
               {"op": "cmp", "a": big_base, "b": i3}, {"op": "cmp", "a": i3, "b": big_base + 1},
               {"op": "sorted", "idx": [big_base, i3, big_base + 2, big_base + 1], "seeds": [rng.getrandbits(30), rng.getrandbits(30)]}]
        if rng.random() < 0.5:
            seq[0], seq[1] = seq[1], seq[0]
        pos = rng.randrange(len(ops) + 1)
        ops[pos:pos] = seq
    if any(len(d.get("perm", [])) == 8 for d in pool_initial[-3:]) and len(pool_initial) >= 3:
        k = len(pool_initial)
        ops.append({"op": "sorted", "idx": [k - 3, k - 2, k - 1, k - 3], "seeds": [rng.getrandbits(30), rng.getrandbits(30)]})
        ops.append({"op": "cmp", "a": k - 3, "b": k - 2})
        ops.append({"op": "cmp", "a": k - 2, "b": k - 3})
        ops.append({"op": "triple", "idx": [k - 3, k - 1, k - 2]})
        ops.append({"op": "insert", "obj": k - 3, "cont": "dict"})
        ops.append({"op": "lookup", "obj": k - 2, "cont": "dict"})
    return {"pool": pool_initial, "ops": ops}


def cases(rng, tier):
    yield gen_case(rng, tier)


# --- execution ------------------------------------------------------------------------


def _cls(o):
    return type(o).__name__


def execute(case):
    hist = histsim.Hist()
    out = hist.out
    heap = allocsim.Heap()
    descs = list(case["pool"])
    try:
        objs = [build(d) for d in descs]
    except Exception as exc:  # pylint: disable=broad-except
        hist.op_index = -1
        hist.violate("exception", {"op": "build", "type": type(exc).__name__}, f"building the pool: {type(exc).__name__}: {exc}")
        return hist.finish()
    vals = [absval(d) for d in descs]
    first_hash = {}
    faults_since_hash = {}
    conts = {"set": set(), "dict": {}}
    inserted = {"set": [], "dict": []}
    abst = []
    flags = {"alloc_between": False, "cross": False}

    def check_hash(i, why):
        try:
            h = hash(objs[i])
        except Exception as exc:  # pylint: disable=broad-except
            hist.violate("exception", {"op": "hash", "type": type(exc).__name__, "cls": _cls(objs[i])}, f"hash({descs[i]}): {exc}")
            return None
        if i in first_hash:
            if faults_since_hash.get(i):
                out.probe("alloc_between_hashes")
                flags["alloc_between"] = True
            if h != first_hash[i]:
                hist.violate("hash_changed", {"cls": _cls(objs[i])},
                             f"hash of {descs[i]} was {first_hash[i]}, is {h} ({why}; {faults_since_hash.get(i, 0)} allocation faults in between)")
        else:
            first_hash[i] = h
        faults_since_hash[i] = 0
        return h

    def alloc_fault(name):
        out.fault(name)
        for i in first_hash:
            faults_since_hash[i] = faults_since_hash.get(i, 0) + 1

    def expect_eq(i, j):
        return vals[i] == vals[j]

    def check_eq(i, j):
        """== both ways against the abstract values; equal => equal hashes."""
        a, b = objs[i], objs[j]
        want = expect_eq(i, j)
        try:
            ab, ba = (a == b), (b == a)
            ne = (a != b)
        except Exception as exc:  # pylint: disable=broad-except
            hist.violate("exception", {"op": "eq", "type": type(exc).__name__}, f"{descs[i]} == {descs[j]}: {exc}")
            return
        if _cls(a) != _cls(b):
            out.probe("cross_class_eq")
            flags["cross"] = True
            if {_cls(a), _cls(b)} == {"VincularPatt", "CovincularPatt"}:
                out.probe("vinc_vs_cov")
            if {_cls(a), _cls(b)} == {"Basis", "MeshBasis"}:
                out.probe("basis_kinds_compared")
        if not want and i in first_hash and j in first_hash and first_hash[i] == first_hash[j]:
            out.probe("equal_hash_unequal_objects")
        if ab is not want or ba is not want or ne is want:
            hist.violate("eq_wrong", {"classes": sorted([_cls(a), _cls(b)])},
                         f"{descs[i]} vs {descs[j]}: a==b {ab}, b==a {ba}, a!=b {ne}; expected equal={want}")
            return
        if want:
            ha, hb = check_hash(i, "eq"), check_hash(j, "eq")
            if ha is not None and hb is not None and ha != hb:
                hist.violate("eq_hash_mismatch", {"classes": sorted([_cls(a), _cls(b)])},
                             f"{descs[i]} == {descs[j]} but hashes {ha} != {hb}")

    def perm_key(v):
        return (len(v[1]), v[1])

    def cmp_all(i, j):
        a, b = objs[i], objs[j]
        try:
            res = {"lt": a < b, "le": a <= b, "gt": a > b, "ge": a >= b, "eq": a == b}
        except Exception as exc:  # pylint: disable=broad-except
            hist.violate("order_exception", {"type": type(exc).__name__, "classes": sorted([_cls(a), _cls(b)])},
                         f"comparing {descs[i]} with {descs[j]}: {type(exc).__name__}: {exc}")
            return None
        if any(not isinstance(v, bool) for v in res.values()):
            hist.violate("order_wrong", {"what": "non_bool", "classes": sorted([_cls(a), _cls(b)])},
                         f"comparison of {descs[i]} with {descs[j]} returned non-boolean {res}")
            return None
        return res

    for idx, op in enumerate(case["ops"]):
        hist.op_index = idx
        kind = op["op"]
        for key in ("obj", "a", "b"):
            if key in op and op[key] >= len(objs):
                kind = "skip"
        if "idx" in op and any(i >= len(objs) for i in op["idx"]):
            kind = "skip"
        if kind == "hash":
            h = check_hash(op["obj"], "hash op")
            hist.log.add("hash", idx, op["obj"], h)
            abst.append(("hash", _cls(objs[op["obj"]])))
        elif kind == "interrupted_hash":
            import os  # pylint: disable=import-outside-toplevel

            i = op["obj"]
            status, _r, _n = histsim.run_interruptible(lambda o=objs[i]: hash(o), op["at"],
                                                       [os.path.join(core.repo_dir(), "permuta") + os.sep])
            if status == "interrupted":
                out.fault("interrupted_call")
                out.probe("interrupted_hash")
            else:
                check_hash(i, "hash op")
            hist.log.add("interrupted_hash", idx, status)
        elif kind == "interrupted_cmp":
            import operator  # pylint: disable=import-outside-toplevel
            import os  # pylint: disable=import-outside-toplevel

            a, b = objs[op["a"]], objs[op["b"]]
            if group(descs[op["a"]]) != group(descs[op["b"]]) or group(descs[op["a"]]) == "basis":
                continue
            fn = lambda f=getattr(operator, op["which"]), x=a, y=b: f(x, y)  # noqa: E731
            pref = [os.path.join(core.repo_dir(), "permuta") + os.sep]
            at = op["at"]
            if isinstance(at, dict):
                import permuta  # pylint: disable=import-outside-toplevel

                # per-object state is invisible to the process-wide fingerprint: expose it for the dry run
                permuta._verif_pool = [getattr(o, "__dict__", None) for o in (a, b)]  # pylint: disable=protected-access
                at = histsim.guided_interrupt_at(fn, pref, at["guided"])
                del permuta._verif_pool
                out.probe("guided_interrupt" if at else "guided_interrupt_no_state_change")
            try:
                status, _r, _n = histsim.run_interruptible(fn, at or 10 ** 9, pref)
            except Exception:  # pylint: disable=broad-except
                status = "exception"  # judged by the cmp op that follows
            if status == "interrupted":
                out.fault("interrupted_call")
                out.probe("interrupted_comparison")
            hist.log.add("interrupted_cmp", idx, status)
        elif kind == "insert":
            i = op["obj"]
            check_hash(i, "insert")
            try:
                if op["cont"] == "set":
                    conts["set"].add(objs[i])
                else:
                    conts["dict"][objs[i]] = i
            except Exception as exc:  # pylint: disable=broad-except
                hist.violate("exception", {"op": "insert", "type": type(exc).__name__}, f"{descs[i]}: {exc}")
            inserted[op["cont"]].append((vals[i], objs[i]))
            hist.log.add("insert", idx, i)
            abst.append(("insert", _cls(objs[i])))
        elif kind == "lookup":
            j = op["obj"]
            c = op["cont"]
            want = any(v == vals[j] for v, _o in inserted[c])
            try:
                got = objs[j] in conts[c]
                if c == "dict":
                    got2 = conts[c].get(objs[j], None) is not None
                else:
                    got2 = got
            except Exception as exc:  # pylint: disable=broad-except
                hist.violate("exception", {"op": "lookup", "type": type(exc).__name__}, f"{descs[j]}: {exc}")
                continue
            if any(v == vals[j] and _cls(o) != _cls(objs[j]) for v, o in inserted[c]):
                out.probe("lookup_through_twin")
                flags["cross"] = True
            elif any(v == vals[j] and o is not objs[j] for v, o in inserted[c]):
                out.probe("lookup_through_twin")
            hist.log.add("lookup", idx, j, got)
            if got is not want or got2 is not want:
                hist.violate("lookup_wrong", {"cont": c, "cls": _cls(objs[j]), "want": want},
                             f"{descs[j]} in {c} = {got}, expected {want} (inserted values: {[v for v, _o in inserted[c]][:4]})")
            abst.append(("lookup", _cls(objs[j])))
        elif kind == "eq":
            check_eq(op["a"], op["b"])
            hist.log.add("eq", idx, op["a"], op["b"])
            abst.append(("eq", _cls(objs[op["a"]]), _cls(objs[op["b"]])))
        elif kind == "cmp":
            i, j = op["a"], op["b"]
            if group(descs[i]) != group(descs[j]) or group(descs[i]) == "basis":
                continue
            a, b = objs[i], objs[j]
            if _cls(a) != _cls(b):
                out.probe("cross_class_order")
                flags["cross"] = True
            res = cmp_all(i, j)
            hist.log.add("cmp", idx, i, j, core.canon(res))
            abst.append(("cmp", _cls(a), _cls(b)))
            if res is None:
                continue
            want_eq = expect_eq(i, j)
            try:
                if not want_eq and hash(a) == hash(b):
                    out.probe("equal_hash_unequal_objects")
            except Exception:  # pylint: disable=broad-except
                pass
            ok = (res["eq"] is want_eq
                  and (res["lt"] + res["eq"] + res["gt"] == 1)
                  and res["le"] is (res["lt"] or res["eq"])
                  and res["ge"] is (res["gt"] or res["eq"]))
            rev = cmp_all(j, i)
            if rev is None:
                continue
            ok = ok and rev["lt"] is res["gt"] and rev["gt"] is res["lt"] and rev["le"] is res["ge"] and rev["ge"] is res["le"]
            if group(descs[i]) == "perm":
                ka, kb = perm_key(vals[i]), perm_key(vals[j])
                ok = ok and res["lt"] is (ka < kb) and res["gt"] is (ka > kb)
            if not ok:
                hist.violate("order_wrong", {"what": "pair_laws", "classes": sorted([_cls(a), _cls(b)])},
                             f"{descs[i]} vs {descs[j]}: {res} / reversed {rev} (expected equal={want_eq})")
        elif kind == "triple":
            i, j, k = op["idx"]
            if len({group(descs[x]) for x in (i, j, k)}) != 1 or group(descs[i]) == "basis":
                continue
            out.probe("transitivity_triple")
            try:
                ab, bc, ac = objs[i] <= objs[j], objs[j] <= objs[k], objs[i] <= objs[k]
                ba, cb, ca = objs[j] <= objs[i], objs[k] <= objs[j], objs[k] <= objs[i]
            except Exception as exc:  # pylint: disable=broad-except
                hist.violate("order_exception", {"type": type(exc).__name__, "classes": sorted({_cls(objs[x]) for x in (i, j, k)})},
                             f"triple {op['idx']}: {type(exc).__name__}: {exc}")
                continue
            hist.log.add("triple", idx, ab, bc, ac)
            if (ab and bc and not ac) or (cb and ba and not ca):
                hist.violate("order_wrong", {"what": "transitivity"}, f"<= not transitive on {[descs[x] for x in (i, j, k)]}")
            abst.append(("triple",))
        elif kind == "sorted":
            idxs = op["idx"]
            if len({group(descs[x]) for x in idxs}) != 1 or group(descs[idxs[0]]) == "basis":
                continue
            if len({_cls(objs[x]) for x in idxs}) > 1:
                out.probe("sorted_heterogeneous")
                flags["cross"] = True
            results = []
            try:
                for s in op["seeds"]:
                    order = list(idxs)
                    random.Random(s).shuffle(order)
                    results.append([vals[x] for x in sorted(order, key=lambda x: objs[x])])
                    # key= uses __lt__ of the objects themselves
            except Exception as exc:  # pylint: disable=broad-except
                hist.violate("order_exception", {"type": type(exc).__name__, "classes": sorted({_cls(objs[x]) for x in idxs})},
                             f"sorted({[descs[x] for x in idxs][:4]}...): {type(exc).__name__}: {exc}")
                continue
            hist.log.add("sorted", idx, len(idxs))
            if results[0] != results[1]:
                hist.violate("order_wrong", {"what": "sorted_depends_on_input_order"},
                             f"two shuffles of {[descs[x] for x in idxs]} sort differently")
            elif group(descs[idxs[0]]) == "perm" and results[0] != sorted(results[0], key=perm_key):
                hist.violate("order_wrong", {"what": "perm_order"}, f"sorted permutations are not in (length, lexicographic) order: {results[0]}")
            abst.append(("sorted", tuple(sorted({_cls(objs[x]) for x in idxs}))))
        elif kind == "alloc_hold":
            heap.hold(op["tag"], op["slots"], op["count"])
            alloc_fault("alloc_hold")
        elif kind == "alloc_misc":
            heap.hold_misc(op["tag"], op["count"])
            alloc_fault("alloc_hold_misc")
        elif kind == "alloc_release":
            heap.release(op["tag"], op["every"])
            alloc_fault("alloc_release")
        elif kind == "churn":
            allocsim.churn(op["n"])
            alloc_fault("churn")
        elif kind == "recurse":
            allocsim.recurse(op["depth"])
            alloc_fault("recursion")
        elif kind == "gc":
            allocsim.collect()
            alloc_fault("gc_collect")
        elif kind == "rebuild":
            # an equal object built again, at whatever address the allocator picks
            i = op["obj"]
            try:
                objs.append(build(descs[i]))
            except Exception as exc:  # pylint: disable=broad-except
                hist.violate("exception", {"op": "build", "type": type(exc).__name__}, f"{descs[i]}: {exc}")
                continue
            descs = descs + [descs[i]]
            vals.append(vals[i])
            check_eq(i, len(objs) - 1)
            alloc_fault("rebuild_equal_object")
        elif kind == "derive":
            i = op["obj"]
            if group(descs[i]) not in ("meshlike", "perm"):
                continue
            check_hash(i, "before derive")
            src = objs[i]
            try:
                how = op["how"]
                if how == "rr":
                    new = src.reverse().reverse()
                elif how == "cc":
                    new = src.complement().complement()
                elif how == "ii":
                    new = src.inverse().inverse()
                elif how == "rot4":
                    new = src.rotate().rotate().rotate().rotate()
                elif how == "shade_same":
                    cells = sorted(vals[i][2])[:2]
                    new = src.shade(*cells) if cells else src.shade()
                elif how == "add_point":
                    # a point (or an increasing / decreasing pair) inserted into a cell that is not
                    # shaded; what the result should be is another property's business, here it
                    # only has to be a well-behaved value: judged against its own reconstruction
                    free = [tuple(c) for c in op["cells"] if tuple(c) not in vals[i][2]]
                    if not free or len(vals[i][1]) >= 6:
                        continue
                    variant = (op["cells"][0][0] + len(op["cells"])) % 7
                    if variant < 5:
                        new = src.add_point(free[0], variant)
                    elif variant == 5:
                        new = src.add_increase(free[0])
                    else:
                        new = src.add_decrease(free[0])
                elif how == "sub_mesh":
                    k = len(vals[i][1])
                    idx = sorted({c[0] % k for c in op["cells"]}) if k else []
                    new = src.sub_mesh_pattern(idx)
                else:
                    new = src.shade(*[tuple(c) for c in op["cells"]])
            except AttributeError:
                continue
            except Exception as exc:  # pylint: disable=broad-except
                hist.violate("exception", {"op": "derive:" + op["how"], "type": type(exc).__name__}, f"{descs[i]}: {exc}")
                break
            if op["how"] == "shade":
                want = ("mesh", vals[i][1], frozenset(vals[i][2] | {tuple(c) for c in op["cells"]}))
            elif op["how"] in ("add_point", "sub_mesh"):
                try:
                    want = ("mesh", tuple(int(v) for v in new.pattern), frozenset((int(a), int(b)) for a, b in new.shading))
                except Exception as exc:  # pylint: disable=broad-except
                    hist.violate("exception", {"op": "derive:" + op["how"], "type": type(exc).__name__}, f"result of {op['how']} on {descs[i]} cannot be read back: {exc}")
                    break
            else:
                want = vals[i]
            if want[0] == "perm":
                direct_desc = {"t": "perm", "perm": list(want[1]), "route": "fresh"}
            else:
                direct_desc = {"t": "mesh", "perm": list(want[1]), "shading": [list(c) for c in sorted(want[2])], "order": "given"}
            direct = build(direct_desc)
            descs = list(descs) + [dict(direct_desc, derived_by=op["how"]), direct_desc]
            objs.extend([new, direct])
            vals.extend([want, want])
            out.probe("derived_from_used_object")
            alloc_fault("derived_object")
            check_eq(len(objs) - 2, len(objs) - 1)
            if not hist.violations:
                try:
                    found = new in {direct} and direct in {new: 1}
                except Exception as exc:  # pylint: disable=broad-except
                    hist.violate("exception", {"op": "lookup", "type": type(exc).__name__}, f"{exc}")
                    break
                if not found:
                    hist.violate("lookup_wrong", {"cont": "set", "cls": _cls(new), "want": True},
                                 f"{op['how']} of {descs[i]} is not found in a set/dict holding the directly built equal pattern")
        elif kind == "flood":
            from itertools import islice, permutations  # pylint: disable=import-outside-toplevel

            pm = common.lazy_permuta()
            for p in islice(permutations(range(7)), op["n"]):
                pm.MeshPatt(pm.Perm(p), ())
            alloc_fault("flood_distinct_objects")
            out.probe("flood")
            for i in op["then"]:
                if i < len(descs) and not hist.violations:
                    try:
                        objs.append(build(descs[i]))
                    except Exception as exc:  # pylint: disable=broad-except
                        hist.violate("exception", {"op": "build", "type": type(exc).__name__}, f"{descs[i]}: {exc}")
                        break
                    descs = list(descs) + [descs[i]]
                    vals.append(vals[i])
                    check_eq(i, len(objs) - 1)
        elif kind == "replace":
            i = op["obj"]
            check_hash(i, "before replace")
            old_id = id(objs[i])
            for c in ("set", "dict"):
                if any(o is objs[i] for _v, o in inserted[c]):
                    old_id = None  # still referenced by a container: cannot be freed
            descs = list(descs)
            objs[i] = None
            keep = []
            new = None
            try:
                if old_id is not None:
                    # the freed block sits somewhere down the allocator's free list: dig for it
                    # (allocsim.aim) after a first build has shown what is going to be allocated
                    gc.collect()
                    shape = build(op["new"])
                    typ, nitems = type(shape), (tuple.__len__(shape) if isinstance(shape, tuple) else None)
                    del shape
                    _addr, held = allocsim.aim(typ, nitems, {old_id})
                    def _release(held=held):
                        held[-1] = None

                    new = build(op["new"], _release)
                    del held, _release
                    if id(new) != old_id:
                        keep.append(new)
                        new = None
                for _ in range(40 if new is None else 0):
                    new = build(op["new"])
                    if old_id is None or id(new) == old_id:
                        break
                    keep.append(new)
                twin = build(op["twin"])
            except Exception as exc:  # pylint: disable=broad-except
                hist.violate("exception", {"op": "build", "type": type(exc).__name__}, f"{op['new']}: {exc}")
                break
            if old_id is not None and id(new) == old_id:
                out.probe("id_reused")
            del keep
            objs[i] = new
            descs[i] = op["new"]
            vals[i] = absval(op["new"])
            first_hash.pop(i, None)
            objs.append(twin)
            descs.append(op["twin"])
            vals.append(absval(op["twin"]))
            alloc_fault("id_reuse")
            check_eq(i, len(objs) - 1)
        if hist.violations:
            break

    # closing sweep: every object hashed before and after the canonical
    # perturbation (the head of every small free list taken away)
    if not hist.violations:
        hist.op_index = len(case["ops"])
        for i in range(len(objs)):
            check_hash(i, "closing sweep, before perturbation")
        allocsim.canonical_perturbation(heap)
        alloc_fault("canonical_perturbation")
        for i in range(len(objs)):
            check_hash(i, "closing sweep, after holding a block of every size class")
            if hist.violations:
                break
        heap.release_all()
        # equal twins hash equal and are found through each other
        if not hist.violations:
            seen = {}
            for i, v in enumerate(vals):
                if v in seen:
                    check_eq(seen[v], i)
                    if hist.violations:
                        break
                else:
                    seen[v] = i
    out.nontrivial = flags["alloc_between"] and flags["cross"]
    out.abstraction = str(hash(tuple(abst)))
    heap.release_all()
    return hist.finish()


def shrink_targets(case):  # pylint: disable=unused-argument
    return [["ops"]]


def simplify(case):
    # drop pool objects from the end when no op refers to them
    used = set()
    for op in case["ops"]:
        for key in ("obj", "a", "b"):
            if key in op:
                used.add(op[key])
        used.update(op.get("idx", []))
    n = len(case["pool"])
    if n > 1 and (n - 1) not in used:
        c = copy.deepcopy(case)
        c["pool"].pop()
        yield c
