#!/venv/bin/python
"""Regenerates the table of benign/README.md from the meta.json files (the text above the table is kept)."""
import glob
import json
import os

HERE = os.path.dirname(os.path.abspath(__file__))
path = os.path.join(HERE, "benign", "README.md")
with open(path) as f:
    head = f.read().split("| id | property |")[0]
rows = []
for d in sorted(glob.glob(os.path.join(HERE, "benign", "*/"))):
    mid = os.path.basename(d.rstrip("/"))
    with open(os.path.join(d, "meta.json")) as f:
        m = json.load(f)
    c = m.get("confirmed_by_me", {})
    silent = "yes" if c.get("stayed_silent") else "NO"
    if m.get("history"):
        silent += " (after a harness correction)"
    others = c.get("other_checks_exit_codes", "")
    what = " ".join(str(m.get("what_changed", "")).split())[:170].replace("|", "/")
    rows.append(f"| {mid} | {m.get('property')} | {silent} | {others or '-'} | {c.get('test_suite_on_patched_tree', '')} | {what} |")
with open(path, "w") as f:
    f.write(head + "| id | property | stayed silent | the other six checks (exit codes) | test suite with the refactoring | what changed |\n|---|---|---|---|---|---|\n" + "\n".join(rows) + "\n")
print(len(rows), "rows")
