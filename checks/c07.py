"""C07 -- concurrent queries on a permutation class are correct under every
interleaving.

System under simulation: the real Av / Basis / MeshBasis / Perm / MeshPatt code
run by 2-4 real threads; the simulator owns the lock (SimLock in place of
Av._CACHE_LOCK and of any lock the perm_sets modules create) and the choice of
who runs (pre-emption before every bytecode of permuta/perm_sets).
"""
import copy
import random

from ref import classes as RC
from sim import core, threadsim

from . import avops, common

PROPERTY = "C07"
LEVEL = "exploration"
USES_THREADS = True  # the thread simulator has its own step budget; no wall-clock alarm
RULE = (
    "each seed -> (basis, optional sequential pre-history, 2-4 threads x 1-4 queries, schedule policy); "
    "a run is an execution of that workload under one seeded schedule; non-trivial = at least one "
    "pre-emption while a SimLock was held or at least one contended acquire; distinct = distinct "
    "event-log digest (every context switch with step index and reason, lock events, every response)"
)
ABSTRACTION = "order of (thread, lock-acquire) and (thread, query-completed) events, independent of basis and lengths"
COMPONENTS = {
    "real": ["permuta.perm_sets.permset.Av", "Basis", "MeshBasis", "Perm", "MeshPatt", "CPython threads"],
    "simulated": ["Av._CACHE_LOCK and any Lock/RLock created in permuta.perm_sets (SimLock)",
                  "thread scheduling (baton passing, opcode-level pre-emption in permuta/perm_sets)"],
}
ASSUMPTIONS = [
    "context switches inside callees outside permuta/perm_sets are equivalent to a switch just before/after the call",
    "CPython with a GIL: switches happen only between bytecodes",
    "reference = brute-force avoider sets on plain tuples (ref/classes.py)",
]
EXPECTED_PROBES = ["preempt_right_after_shared_state_change", "threads_create_class_from_shared_pattern_objects",
                   "preempt_while_lock_held", "contended_acquire", "lock_handoff", "prehistory", "mesh_basis",
                   "own_handle", "clear_cache_thread", "live_iterator_across_queries"]

_STATE = {"installed": False, "registry": [], "last_steps": 0}


def plan(tier):
    if tier == "quick":
        return {"runs": 16000, "chunk": 20, "wall_cap": 180}  # small chunks: every chunk is a fresh process (first-use races)
    return {"runs": 300000, "chunk": 200, "wall_cap": 900}


def prepare(tier):  # pylint: disable=unused-argument
    RC.self_check()
    _install()


def _install():
    if _STATE["installed"]:
        return
    _STATE["registry"] = common.isolate_locks()
    _STATE["prefixes"] = threadsim.trace_prefixes_for(core.repo_dir())
    _STATE["prefixes_all"] = threadsim.trace_prefixes_for(core.repo_dir(), subdirs=("permuta",))
    _STATE["installed"] = True


# --- generation -----------------------------------------------------------------


def _limits(tier):
    if tier == "quick":
        return {"cmax": 6, "mmax": 5, "cap": 90, "ref_max_c": 7, "ref_max_m": 5}
    return {"cmax": 7, "mmax": 6, "cap": 420, "ref_max_c": 8, "ref_max_m": 6}


def _nmax(ref, hard, cap):
    n = 0
    for i in range(hard + 1):
        if RC.count(ref, i) <= cap:
            n = i
        else:
            break
    return n


def gen_case(rng, tier):
    lim = _limits(tier)
    deep = rng.random() < 0.08
    if deep:
        lim = dict(lim, cap=max(20, lim["cap"] // 4))
    elif rng.random() < 0.04:
        lim = _limits("thorough")  # swarm: a few runs on deeper levels / larger classes
    mesh = rng.random() < 0.3
    if mesh:
        items = common.gen_mesh_basis(rng)
    else:
        items = common.gen_classical_basis(rng)
    ref = common.to_ref(items)
    classical = RC.is_classical(ref)
    nmax = _nmax(ref, lim["cmax"] if classical else lim["mmax"], lim["cap"])
    if rng.random() < 0.5:
        nmax = max(1, nmax - rng.randint(0, 2))
    ref_max = lim["ref_max_c"] if classical else lim["ref_max_m"]
    allow_first = classical or not RC.has_gap(ref, ref_max)
    others = None
    if classical and rng.random() < 0.3:
        others = [common.gen_classical_basis(rng) if rng.random() < 0.6 else common.gen_mesh_basis(rng, max_patts=1)
                  for _ in range(2)]
    pre = []
    if rng.random() < 0.5:
        for _ in range(rng.randint(1, 3)):
            pre.append(avops.gen_query(rng, ref, max(0, nmax - rng.randint(1, 3)), classical, allow_first))
    nthreads = rng.choice([2, 2, 2, 3, 3, 4])
    # the threads that create the class themselves do so from the same pattern objects (whose
    # search tables are memoised per object on first use, outside any lock of the class)
    share_patts = rng.random() < (0.6 if deep else 0.1)
    threads = []
    for _ in range(nthreads):
        nops = rng.choice([1, 1, 2, 2, 3, 4])
        ops = [avops.gen_query(rng, ref, nmax, classical, allow_first, others) for _ in range(nops)]
        own = rng.random() < (0.7 if share_patts else 0.3)
        if rng.random() < 0.3:
            # a live iterator held across the thread's other queries
            kind = rng.choice(["of_length", "of_length", "up_to_length"])
            n = max(0, nmax - rng.choice([0, 0, 1, 2]))
            pos = rng.randrange(len(ops) + 1)
            ops.insert(pos, {"op": "iter_new", "kind": kind, "n": n})
            for _ in range(rng.randint(1, 3)):
                p2 = rng.randrange(pos + 1, len(ops) + 1)
                ops.insert(p2, {"op": "iter_step", "k": rng.choice([1, 2, 5, 1000])})
        threads.append({"handle": "own" if own else "shared", "form": common.gen_form(rng, items),
                        "salt": rng.randint(0, 3), "ops": ops})
    if rng.random() < 0.12:
        threads.append({"handle": "none", "form": "list", "salt": 0,
                        "ops": [{"op": "clear_cache"} for _ in range(rng.randint(1, 2))]})
    pol = rng.choice(["rw", "rw", "rw", "edge", "edge", "pct", "stall", "seq", "publish", "publish"])
    sched = {"mode": "policy", "policy": pol, "seed": rng.getrandbits(48)}
    if pol == "rw":
        sched["p"] = rng.choice([0.002, 0.01, 0.05, 0.2, 0.5])
    elif pol == "edge":
        sched["p_edge"] = rng.choice([0.3, 0.6])
        sched["p_base"] = rng.choice([0.0, 0.001, 0.01])
    elif pol == "pct":
        sched["depth"] = rng.choice([1, 2, 3])
    elif pol == "publish":
        sched["p_struct"] = rng.choice([0.5, 0.9])
        sched["p_fine"] = rng.choice([0.0, 0.01, 0.05])
        sched["p_base"] = rng.choice([0.0, 0.002, 0.02])
        sched["burst"] = int(10 ** rng.uniform(1, 3.5))
    elif pol == "stall":
        sched["p"] = rng.choice([0.01, 0.05])
        sched["victim"] = rng.randrange(nthreads)
        sched["from"] = int(10 ** rng.uniform(0.5, 3.5))
        sched["len"] = int(10 ** rng.uniform(2, 4.5))
    return {
        "basis": items, "form": common.gen_form(rng, items), "prehistory": pre, "threads": threads,
        "schedule": sched, "nmax": nmax, "ref_max": ref_max,
        # > 25x the longest run observed on the unchanged tree in this tier
        "max_steps": 1_500_000 if tier == "quick" else 6_000_000,
        # swarm: a few runs pre-empt inside every permuta module (callees of the level builder
        # included: Perm.insert / remove / avoids, pattern search, basis construction), not only
        # inside permuta/perm_sets
        "trace": "all" if deep else "perm_sets",
        "share_patts": share_patts,
    }


def cases(rng, tier):
    case = gen_case(rng, tier)
    if case["schedule"]["policy"] == "pct":
        seq = copy.deepcopy(case)
        order = list(range(len(case["threads"])))
        random.Random(case["schedule"]["seed"]).shuffle(order)
        seq["schedule"] = {"mode": "policy", "policy": "seq", "seed": 0, "order": order}
        yield seq
        case["schedule"]["est_len"] = max(10, _STATE["last_steps"])
    yield case


# --- execution --------------------------------------------------------------------


def _watch_shared(pm, shared):
    """(structural, fine) fingerprint of what the threads share.  Structural: the number of
    levels of the shared class object and which list holds them, and the sizes of every
    process-wide container of the permuta modules (class registry, per-class tables a change
    may have added ...).  Fine: the sizes of the three newest levels."""
    from sim import histsim  # pylint: disable=import-outside-toplevel

    slots = []
    for owner, name in histsim._container_slots(histsim.permuta_modules()):  # pylint: disable=protected-access
        if name.startswith("__"):
            continue
        val = vars(owner).get(name)
        if isinstance(val, (dict, list, set)):
            slots.append((vars(owner), name))

    def watch():
        cache = getattr(shared, "cache", None)
        glob = 0
        for ns, name in slots:
            c = ns.get(name)
            glob = glob * 31 + (len(c) if hasattr(c, "__len__") else 0)
        if not isinstance(cache, list):
            return ((glob,), ())
        fine = 0
        for lvl in cache[-3:]:
            fine = fine * 1000003 + (len(lvl) if hasattr(lvl, "__len__") else 0)
        return ((len(cache), id(cache), glob), fine)
    return watch


def _make_policy(s, ntids, watch=None):
    if s["mode"] == "segments":
        return threadsim.SegmentPolicy(s["segments"])
    rng = random.Random(s["seed"])
    pol = s["policy"]
    if pol == "rw":
        return threadsim.RandomWalkPolicy(rng, s["p"], max(s["p"], 0.25))
    if pol == "edge":
        return threadsim.EdgePolicy(rng, s["p_edge"], s["p_base"])
    if pol == "pct":
        return threadsim.PCTPolicy(rng, list(range(ntids)), s.get("est_len", 2000), s["depth"])
    if pol == "publish":
        return threadsim.PublishPolicy(rng, watch, s["p_struct"], s["p_fine"], s["p_base"], s["burst"])
    if pol == "stall":
        return threadsim.StallPolicy(rng, s["p"], s["victim"], s["from"], s["len"])
    if pol == "seq":
        return threadsim.SequentialPolicy(s.get("order", list(range(ntids))))
    raise ValueError(pol)


def execute(case):
    _install()
    pm = common.lazy_permuta()
    out = core.Outcome()
    log = core.EventLog()
    ref = common.to_ref(case["basis"])
    ref_max = case["ref_max"]
    pm.Av.clear_cache()
    cc = getattr(getattr(pm.Perm, "_to_standard", None), "cache_clear", None)
    if cc is not None:
        cc()  # with deep tracing the step count must not depend on what earlier runs memoised
    for lock in _STATE["registry"]:
        lock._reset()  # pylint: disable=protected-access
    del _STATE["registry"][64:]

    findings = []  # (phase, tid, opidx, op, (kind,key,detail))

    # sequential pre-history on the shared instance (also the fault-free,
    # schedule-free configuration of the oracle)
    shared = common.mk_av(case["basis"], case["form"])
    for i, op in enumerate(case["prehistory"]):
        resp = avops.run_query(shared, op)
        log.add("pre", i, core.canon(resp))
        bad = avops.check_query(ref, op, resp, ref_max)
        if bad:
            findings.append(("pre", -1, i, op, bad))
    if case["prehistory"]:
        out.probe("prehistory")
    if not RC.is_classical(ref):
        out.probe("mesh_basis")

    shared_patts = [common.mk_patt(it) for it in case["basis"]] if case.get("share_patts") else None
    if shared_patts is not None:
        out.probe("threads_create_class_from_shared_pattern_objects")
    policy = _make_policy(case["schedule"], len(case["threads"]), _watch_shared(pm, shared))
    deep = case.get("trace") == "all"
    prefixes = _STATE["prefixes_all"] if deep else _STATE["prefixes"]
    sched = threadsim.Sched(policy, prefixes, log, max_steps=case.get("max_steps", 4_000_000) * (8 if deep else 1))
    sched.watch_names = frozenset({"_ensure_level"})
    if deep:
        out.probe("deep_tracing")
    responses = {}

    def make_fn(tdesc):
        def fn(tid):
            sched.yp(tid, "start")
            res = []
            responses[tid] = res
            if tdesc["handle"] == "own":
                try:
                    av = common.mk_av(case["basis"], tdesc["form"], tdesc["salt"], shared_patts)
                except Exception as exc:  # pylint: disable=broad-except
                    # constructing the class failed inside the library: every query of this
                    # thread is answered by that exception
                    res.extend([["exc", type(exc).__name__, f"while constructing Av: {exc}"[:200]] for _ in tdesc["ops"]])
                    return
            else:
                av = shared
            live = {"it": None, "op": None, "items": [], "done": False}
            for j, op in enumerate(tdesc["ops"]):
                if op["op"] == "clear_cache":
                    pm.Av.clear_cache()
                    resp = ["v", None]
                elif op["op"] == "iter_new":
                    try:
                        it = av.of_length(op["n"]) if op["kind"] == "of_length" else av.up_to_length(op["n"])
                        live.update(it=iter(it), op=op, items=[], done=False)
                        resp = ["v", None]
                    except Exception as exc:  # pylint: disable=broad-except
                        resp = ["exc", type(exc).__name__, str(exc)[:200]]
                elif op["op"] == "iter_step":
                    resp = ["v", None]
                    if live["it"] is not None and not live["done"]:
                        try:
                            for _ in range(op["k"]):
                                try:
                                    live["items"].append(list(next(live["it"])))
                                except StopIteration:
                                    live["done"] = True
                                    break
                                sched.yp(tid, "consume")
                        except Exception as exc:  # pylint: disable=broad-except
                            resp = ["exc", type(exc).__name__, str(exc)[:200]]
                            live["done"] = True
                        resp = resp if resp[0] == "exc" else ["v", {"kind": live["op"]["kind"], "n": live["op"]["n"],
                                                                     "items": list(live["items"]), "done": live["done"]}]
                else:
                    resp = avops.run_query(av, op, lambda: sched.yp(tid, "consume"))
                res.append(resp)
                log.add("res", tid, j, core.canon(resp))
                sched.yp(tid, "opdone")
        return fn

    for tid, tdesc in enumerate(case["threads"]):
        if tdesc["handle"] == "own":
            out.probe("own_handle")
        if tdesc["handle"] == "none":
            out.probe("clear_cache_thread")
        sched.spawn(tid, make_fn(tdesc))
    sched.run(wall_timeout=900)

    out.steps = sched.steps
    _STATE["last_steps"] = sched.steps
    out.extra["segments"] = sched.segments
    out.extra["switches"] = sched.switches
    for name in ("contended_acquire", "lock_handoff", "forced_preempt", "lock_block", "lock_acquire", "two_threads_inside_watched_function",
                 "preempt_right_after_shared_state_change", "preempt_after_publication_candidates"):
        if sched.counters.get(name):
            out.probe(name, sched.counters[name])
    if sched.lock_holder_preempts:
        out.probe("preempt_while_lock_held", sched.lock_holder_preempts)
    out.fault("preemption", sched.switches)
    out.probe("policy_" + str(case["schedule"].get("policy", case["schedule"]["mode"])))
    if case["schedule"].get("policy") == "stall":
        out.fault("stall")
    out.nontrivial = bool(sched.lock_holder_preempts or sched.counters.get("contended_acquire"))

    for t in sched.threads.values():
        if t.exc is not None:
            raise core.HarnessError(f"exception in harness thread code: {t.exc!r}")

    if sched.abort == "deadlock":
        out.violation = core.Violation("deadlock", {}, "all live threads blocked on locks")
    elif sched.abort == "budget":
        out.violation = core.Violation("no_progress", {}, f"step budget exhausted under a fair schedule ({sched.steps} steps)")
    else:
        for tid, tdesc in enumerate(case["threads"]):
            res = responses.get(tid, [])
            if len(res) != len(tdesc["ops"]):
                raise core.HarnessError("thread finished without answering all ops")
            for j, (op, resp) in enumerate(zip(tdesc["ops"], res)):
                if op["op"] in ("clear_cache", "iter_new") and resp[0] == "v":
                    continue
                if op["op"] == "iter_step" and resp[0] == "v":
                    if resp[1] is None:
                        continue
                    out.probe("live_iterator_across_queries")
                    st = resp[1]
                    if st["done"]:
                        bad = avops.check_query(ref, {"op": st["kind"], "n": st["n"]}, ["v", st["items"]], ref_max)
                    else:
                        bad = None
                        tup = [tuple(p) for p in st["items"]]
                        if len(set(tup)) != len(tup):
                            bad = ("wrong_answer", {"op": "iter:" + st["kind"], "what": "duplicate"}, "live iterator yielded a permutation twice")
                        for p in tup:
                            if len(p) <= ref_max and p not in RC.level(ref, len(p)):
                                bad = ("wrong_answer", {"op": "iter:" + st["kind"]}, f"live iterator yielded non-member {p}")
                    if bad:
                        findings.append(("conc", tid, j, op, bad))
                    continue
                bad = avops.check_query(ref, op, resp, ref_max)
                if bad:
                    findings.append(("conc", tid, j, op, bad))
        # the cache must not be left corrupted for later, sequential callers
        for name, handle in (("shared", shared), ("fresh", common.mk_av(case["basis"], "list"))):
            post_op = {"op": "enumeration", "n": case["nmax"]}
            resp = avops.run_query(handle, post_op)
            log.add("post", name, core.canon(resp))
            bad = avops.check_query(ref, post_op, resp, ref_max)
            if bad:
                findings.append(("post", -1, 0, post_op, (bad[0], dict(bad[1], phase="post"), bad[2])))
            post_op = {"op": "up_to_length", "n": min(case["nmax"], 4)}
            resp = avops.run_query(handle, post_op)
            bad = avops.check_query(ref, post_op, resp, ref_max)
            if bad:
                findings.append(("post", -1, 1, post_op, (bad[0], dict(bad[1], phase="post"), bad[2])))
        if findings:
            phase, tid, j, op, (kind, key, detail) = findings[0]
            key = dict(key)
            key["phase"] = phase
            out.violation = core.Violation(kind, key, f"{phase} thread {tid} op {j} {op}: {detail}")

    # abstraction: lock acquisition order and query completion order
    abst = [e for e in log.head if e.startswith("('acq'") or e.startswith("('res'")]
    out.abstraction = str(hash(tuple(e[:14] for e in abst)))
    out.digest = log.digest()
    return out


# --- minimisation -----------------------------------------------------------------


def freeze(case, out):
    """Replace the PRNG-driven schedule by the recorded segments."""
    segs = out.extra.get("segments")
    if not segs:
        return None
    case["schedule"] = {"mode": "segments", "segments": segs}
    return case


def shrink_targets(case):
    t = [["prehistory"]]
    for i in range(len(case["threads"])):
        t.append(["threads", i, "ops"])
    if case["schedule"]["mode"] == "segments":
        t.append(["schedule", "segments"])
    return t


def simplify(case):
    # merge adjacent segments of the same thread
    if case["schedule"]["mode"] == "segments":
        segs = case["schedule"]["segments"]
        merged = []
        for t, n in segs:
            if merged and merged[-1][0] == t:
                merged[-1][1] += n
            else:
                merged.append([t, n])
        if len(merged) < len(segs):
            c = copy.deepcopy(case)
            c["schedule"]["segments"] = merged
            yield c
    # drop trailing threads without ops
    while case["threads"] and not case["threads"][-1]["ops"] and len(case["threads"]) > 1:
        c = copy.deepcopy(case)
        c["threads"].pop()
        yield c
        break
    # smaller lengths
    for i, td in enumerate(case["threads"]):
        for j, op in enumerate(td["ops"]):
            if op.get("n", 0) > 0:
                c = copy.deepcopy(case)
                c["threads"][i]["ops"][j]["n"] = op["n"] - 1
                yield c
    if case["nmax"] > 1:
        c = copy.deepcopy(case)
        c["nmax"] -= 1
        yield c
    # simpler argument form / shared handle
    for i, td in enumerate(case["threads"]):
        if td["handle"] == "own":
            c = copy.deepcopy(case)
            c["threads"][i]["handle"] = "shared"
            yield c
    if len(case["basis"]) > 1:
        for i in range(len(case["basis"])):
            c = copy.deepcopy(case)
            del c["basis"][i]
            yield c
