"""Queries on a permutation class as data: generation, execution against the
real Av object, and the by-definition oracle.  Shared by C02 and C07."""
from ref import classes as RC

from . import common


def rand_member_or_not(rng, ref, nmax):
    """A permutation (list) to test membership for: members, non-members,
    basis elements, lengths beyond the built cache."""
    n = rng.randint(0, nmax + (1 if rng.random() < 0.2 else 0))
    r = rng.random()
    if r < 0.45 and n <= nmax:
        lvl = sorted(RC.level(ref, n))
        if lvl:
            return list(lvl[rng.randrange(len(lvl))])
    if r < 0.7:
        # a basis element itself (the permutations a half-pruned level would wrongly contain)
        it = ref[rng.randrange(len(ref))]
        return list(it[1])
    return common.rand_perm(rng, n)


def gen_query(rng, ref, nmax, classical, allow_first=True, others=None, weights=None):
    """One query op (JSON).  `others` = list of basis items lists usable as
    is_subclass arguments."""
    kinds = ["count", "count", "of_length", "of_length", "contains", "contains",
             "up_to_length", "enumeration"]
    if allow_first:
        kinds.append("first")
    if others:
        kinds.append("is_subclass")
    kind = rng.choice(kinds)
    n = max(0, nmax - rng.choice([0, 0, 0, 1, 1, 2, 3]))
    if rng.random() < 0.1:
        n = rng.randint(0, nmax)
    if kind in ("count", "of_length", "up_to_length", "enumeration"):
        return {"op": kind, "n": n}
    if kind == "contains":
        return {"op": "contains", "perm": rand_member_or_not(rng, ref, nmax)}
    if kind == "first":
        total = sum(RC.count(ref, i) for i in range(nmax + 1))
        k = rng.randint(0, max(1, total))
        finite_seen = classical and any(RC.count(ref, i) == 0 for i in range(nmax + 1))
        if finite_seen and rng.random() < 0.3:
            k = total + rng.randint(1, 5)  # only where the class is known to be exhausted
        return {"op": "first", "k": k}
    other = others[rng.randrange(len(others))]
    return {"op": "is_subclass", "other": other, "form": common.gen_form(rng, other)}


def run_query(av, op, yp=None):
    """Execute one query against the real object; returns a JSON-able
    response ["v", value] or ["exc", type, message].  yp() is called between
    items consumed from library iterators (a yield point under threadsim)."""
    kind = op["op"]
    try:
        if kind == "count":
            return ["v", av.count(op["n"])]
        if kind == "enumeration":
            return ["v", list(av.enumeration(op["n"]))]
        if kind == "contains":
            pm = common.lazy_permuta()
            return ["v", bool(pm.Perm(op["perm"]) in av)]
        if kind in ("of_length", "up_to_length", "first"):
            if kind == "of_length":
                it = av.of_length(op["n"])
            elif kind == "up_to_length":
                it = av.up_to_length(op["n"])
            else:
                it = av.first(op["k"])
            res = []
            for p in it:
                res.append(list(p))
                if yp is not None:
                    yp()
            return ["v", res]
        if kind == "is_subclass":
            other = common.mk_av(op["other"], op["form"])
            return ["v", bool(av.is_subclass(other))]
        if kind == "noop":
            return ["v", None]
        raise ValueError(kind)
    except Exception as exc:  # pylint: disable=broad-except
        return ["exc", type(exc).__name__, str(exc)[:200]]


def _bad(kind, op, detail, **key):
    k = {"op": op["op"]}
    k.update(key)
    return (kind, k, detail)


def check_levels(ref, op, items, upto, exact_last=True):
    """items: list of perms in the order yielded; must be levels 0..upto each
    complete, duplicate free, in non-decreasing length."""
    # the order in which up_to_length delivers the permutations is not promised anywhere
    # (docstring, property): only the set and the absence of repetitions are judged
    tup = [tuple(p) for p in items]
    if len(set(tup)) != len(tup):
        return _bad("wrong_answer", op, "a permutation was yielded twice", what="duplicate")
    by_len = {}
    for p in tup:
        by_len.setdefault(len(p), set()).add(p)
    for n in range(upto + 1):
        want = RC.level(ref, n)
        got = by_len.get(n, set())
        if got != want and (exact_last or n < upto):
            miss = sorted(want - got)[:3]
            extra = sorted(got - want)[:3]
            return _bad("wrong_answer", op, f"level {n}: missing {miss} extra {extra}")
    if any(n > upto for n in by_len):
        return _bad("wrong_answer", op, "permutations longer than requested")
    return None


def check_query(ref, op, resp, ref_max):
    """Compare one response with the reference.  Returns None or
    (kind, key, detail).  ref_max: largest length the reference may be asked
    for (cost bound); ops beyond it are not judged."""
    kind = op["op"]
    mesh = not RC.is_classical(ref)
    if kind == "noop":
        return None
    if resp[0] == "exc":
        return ("exception", {"op": kind, "type": resp[1]}, f"{resp[1]}: {resp[2]}")
    val = resp[1]
    if kind == "count":
        if op["n"] > ref_max:
            return None
        want = RC.count(ref, op["n"])
        if val != want:
            return _bad("wrong_answer", op, f"count({op['n']}) = {val}, reference {want}")
        return None
    if kind == "enumeration":
        if op["n"] > ref_max:
            return None
        want = RC.enumeration(ref, op["n"])
        if val != want:
            return _bad("wrong_answer", op, f"enumeration({op['n']}) = {val}, reference {want}")
        return None
    if kind == "contains":
        want = RC.member(op["perm"], ref)
        if val != want:
            return _bad("wrong_answer", op, f"{op['perm']} in class = {val}, reference {want}")
        return None
    if kind == "of_length":
        if op["n"] > ref_max:
            return None
        tup = [tuple(p) for p in val]
        if len(set(tup)) != len(tup):
            return _bad("wrong_answer", op, "a permutation was yielded twice", what="duplicate")
        want = RC.level(ref, op["n"])
        if set(tup) != want:
            miss = sorted(want - set(tup))[:3]
            extra = sorted(set(tup) - want)[:3]
            return _bad("wrong_answer", op, f"of_length({op['n']}): missing {miss} extra {extra}")
        return None
    if kind == "up_to_length":
        if op["n"] > ref_max:
            return None
        return check_levels(ref, op, val, op["n"])
    if kind == "first":
        k = op["k"]
        # reference: members in length order; stop when the reference horizon
        # is reached
        want_total = 0
        levels = []
        for n in range(ref_max + 1):
            c = RC.count(ref, n)
            levels.append(c)
            want_total += c
            if want_total >= k:
                break
            if c == 0 and not mesh:
                break  # classical classes are closed downward: nothing longer
        horizon_hit = want_total < k and not (levels and levels[-1] == 0 and not mesh)
        gap = mesh and RC.has_gap(ref, ref_max)
        tup = [tuple(p) for p in val]
        stops_at_gap = False
        if gap:
            # the shape of the listed finding D8: exactly the members below the
            # first empty level, nothing else
            fe = RC.first_empty_level(ref, ref_max)
            below = sum(RC.count(ref, i) for i in range(fe))
            stops_at_gap = len(tup) == min(k, below) and all(len(p) < fe for p in tup) and len(tup) < k
        key_extra = {"mesh": mesh, "gap": gap, "stops_at_gap": stops_at_gap}
        if len(set(tup)) != len(tup):
            return _bad("wrong_answer", op, "first: a permutation was yielded twice", **key_extra)
        lens = [len(p) for p in tup]
        if lens != sorted(lens):
            return _bad("wrong_answer", op, "first: lengths not non-decreasing", **key_extra)
        for p in tup:
            if len(p) <= ref_max and p not in RC.level(ref, len(p)):
                return _bad("wrong_answer", op, f"first: {p} is not a member", **key_extra)
        if horizon_hit:
            # cannot know how many members exist beyond the horizon
            if len(tup) > k:
                return _bad("wrong_answer", op, f"first({k}) yielded {len(tup)} items", **key_extra)
            return None
        want_n = min(k, want_total)
        if len(tup) != want_n:
            return _bad("wrong_answer", op,
                        f"first({k}) yielded {len(tup)} items, reference has {want_n} (levels {levels})",
                        **key_extra)
        # every level strictly below the last touched one must be complete
        if tup:
            last = len(tup[-1])
            by_len = {}
            for p in tup:
                by_len.setdefault(len(p), set()).add(p)
            for n in range(last):
                if by_len.get(n, set()) != RC.level(ref, n):
                    return _bad("wrong_answer", op, f"first({k}): level {n} incomplete before level {last}", **key_extra)
        return None
    if kind == "is_subclass":
        other = common.to_ref(op["other"])
        # any member of the receiver outside the argument disproves True; for a
        # classical receiver a counterexample, if one exists, has length at most
        # the longest basis element of the argument
        upto = ref_max if RC.is_classical(other) else min(ref_max, 5)
        if not mesh:
            upto = min(upto, max(RC.max_len(other), 1))
        cex = RC.subclass_counterexample(ref, other, upto)
        recv_mesh = mesh
        arg_mesh = not RC.is_classical(other)
        key_extra = {"receiver_mesh": recv_mesh, "arg_mesh": arg_mesh}
        if val is True and cex is not None:
            return _bad("wrong_answer", op, f"is_subclass True but {cex} is in the receiver and not in the argument", **key_extra)
        if val is False and cex is None:
            if not recv_mesh and upto >= RC.max_len(other):
                # exact for a classical receiver: a counterexample of length at
                # most the longest basis element of the argument must exist
                return _bad("wrong_answer", op, "is_subclass False but the receiver lies inside the argument", **key_extra)
            # mesh receiver: inclusion up to the horizon proves nothing
        return None
    raise ValueError(kind)
