"""C09 -- generation, ranking and notations are bijective and mutually
consistent, whatever use was made of the standardisation memo before.

histsim: live generators (Perm.of_length / up_to_length / first,
MeshPatt.of_length) advanced in seeded interleavings, rank / unrank on seeded
and boundary ranks, standardisation of sequences over mixed comparable values
with repetitions -- including equal-but-distinct memo keys -- with the memo
cleared or flooded beyond its capacity between calls, and all notations.
"""
import copy
from fractions import Fraction

from ref import order as RO
from ref import patterns as RP
from sim import core, histsim

from . import common

PROPERTY = "C09"
LEVEL = "exploration"
RULE = (
    "each seed -> history of 8-35 ops: generator creation / stepping / draining (several live at once), unrank / "
    "unrank-with-length / rank on seeded and boundary ranks, order comparisons, standardisation of sequences with "
    "repetitions over ints / floats / bools / Fractions / strings / tuples, memo clear / flooding, notation "
    "round trips, validated constructor (incl. its three error cases), mesh rank / unrank / of_length; non-trivial = "
    "a standardisation was answered from the memo after other keys were cached or after a flush / flood, or two "
    "generators were interleaved; distinct = distinct event-log digest"
)
ABSTRACTION = "sequence of (op kind, memo state hit/miss/after-flood, number of live generators)"
COMPONENTS = {
    "real": ["Perm.of_length / up_to_length / first / _all", "Perm.unrank / rank / __lt__", "Perm.to_standard / standardize / from_iterable and its lru_cache",
             "Perm.from_string / str / repr / one_based / from_integer / from_iterable_validated", "MeshPatt.unrank / rank / of_length"],
    "simulated": ["the caller: seeded interleaving of live generators", "memo loss (cache_clear) and eviction (flooding with > 10000 keys)",
                  "equal-but-distinct memo keys"],
}
ASSUMPTIONS = ["reference order = plain recursive lexicographic enumeration, Lehmer-code rank (ref/order.py)",
               "str round trip only for length <= 10, integer notation only where a leading zero is not lost"]
EXPECTED_PROBES = ["memo_hit", "memo_equal_distinct_key", "after_flood", "after_clear", "interleaved_generators", "boundary_rank",
                   "ties", "error_case", "mesh_of_length", "first_generator", "interrupted_call", "interrupted_generator", "interrupted_rank_unrank"]


def plan(tier):
    if tier == "quick":
        return {"runs": 20000, "chunk": 50, "wall_cap": 150}  # small chunks: many first-uses of a fresh process
    return {"runs": 700000, "chunk": 1000, "wall_cap": 900}


def prepare(tier):  # pylint: disable=unused-argument
    RO.self_check()


# --- generation ----------------------------------------------------------------------------


def _rand_seq(rng):
    """A sequence to standardise, as JSON: {"kind":..., "vals":[...]}"""
    n = rng.choice([0, 1, 2, 3, 3, 4, 4, 5, 6, 8])
    kind = rng.choice(["int", "int", "int", "float", "bool_mix", "fraction", "str", "tuple", "chars", "neg"])
    spread = rng.choice([2, 3, n + 1, 2 * n + 2])  # small spread -> many ties
    if kind == "int":
        vals = [rng.randrange(spread) for _ in range(n)]
    elif kind == "neg":
        vals = [rng.randrange(-spread, spread) for _ in range(n)]
    elif kind == "float":
        vals = [float(rng.randrange(spread)) if rng.random() < 0.6 else rng.randrange(spread) + 0.5 for _ in range(n)]
    elif kind == "bool_mix":
        vals = [rng.choice([0, 1, 2, True, False, 1.0, 0.0]) for _ in range(n)]
        vals = [["b", v] if isinstance(v, bool) else v for v in vals]
    elif kind == "fraction":
        vals = [["f", rng.randrange(-3, 4), rng.randrange(1, 4)] for _ in range(n)]
    elif kind == "str":
        vals = [rng.choice(["a", "b", "ab", "", "B", "zz", "10", "9"]) for _ in range(n)]
    elif kind == "tuple":
        vals = [["t", rng.randrange(3), rng.randrange(3)] for _ in range(n)]
    else:
        return {"kind": "chars", "text": "".join(rng.choice("abcxyz019") for _ in range(n))}
    return {"kind": kind, "vals": vals}


def _variant(rng, seq):
    """The same sequence under equal-but-distinct spellings (1 / 1.0 / True)."""
    if seq["kind"] not in ("int", "float", "bool_mix"):
        return None
    out = []
    for v in seq["vals"]:
        raw = v[1] if isinstance(v, list) else v
        if raw in (0, 1) and rng.random() < 0.5:
            out.append(["b", bool(raw)])
        elif float(raw).is_integer():
            out.append(float(raw) if rng.random() < 0.5 else int(raw))
        else:
            out.append(raw)
    return {"kind": "bool_mix", "vals": out}


def gen_case(rng, tier):
    maxn = 6 if tier == "quick" else 7
    big = rng.random() < 0.06
    if big:
        maxn += 2  # generators are then only consumed in prefixes (the drain cap applies)
    ops = []
    live = []
    nid = 0
    seqs = []
    for _ in range(rng.randint(8, 35) if rng.random() >= 0.03 else rng.randint(80, 160)):
        r = rng.random()
        if r < 0.14:
            kind = rng.choice(["of_length", "of_length", "up_to_length", "first", "mesh_of_length", "mesh_of_length_patt"])
            if kind == "of_length":
                arg = rng.randint(0, maxn)
            elif kind == "up_to_length":
                arg = rng.randint(0, maxn - 1)
            elif kind == "first":
                arg = rng.choice([0, 1, 2, 5, 10, 34, 154, 200, 874, 900]) if rng.random() < 0.5 else rng.randint(1, 60)
            elif kind == "mesh_of_length":
                arg = rng.choice([0, 1, 1, 2])
            else:
                arg = common.rand_perm(rng, rng.choice([0, 1, 1, 2, 2]))
            ops.append({"op": "gen_new", "kind": kind, "arg": arg, "id": nid})
            live.append(nid)
            nid += 1
        elif r < 0.32 and live:
            iid = rng.choice(live)
            rr = rng.random()
            if rr < 0.08:
                # the consumer is interrupted while the generator is producing
                ops.append({"op": "iter_interrupt", "id": iid, "k": rng.choice([3, 24, 200]), "at": int(10 ** rng.uniform(0, 2.5))})
                live.remove(iid)
            elif rr < 0.7:
                ops.append({"op": "iter_step", "id": iid, "k": rng.choice([1, 2, 3, 7, 24, 120, 600])})
            elif rr < 0.9:
                ops.append({"op": "iter_drain", "id": iid})
                live.remove(iid)
            else:
                ops.append({"op": "iter_abandon", "id": iid})
                live.remove(iid)
        elif r < 0.47:
            n = rng.randint(0, maxn + 2)
            bounds = [0, 1, 2, 3, 4, 9, 10, 33, 34, 153, 154, 873, 874, 5913, 5914, 46233, 46234]
            if rng.random() < 0.15:
                # an earlier rank / unrank call that was interrupted part-way (tables grown on demand)
                big_n = rng.choice([5, 6, 7, 7, 8, 8])
                ops.append({"op": "interrupted_rank", "what": rng.choice(["unrank", "unrank_n", "rank"]), "n": big_n,
                            "r": rng.randrange(RO.factorial(big_n)),
                            "at": rng.randint(1, 25) if rng.random() < 0.5 else {"guided": round(rng.random(), 3)}})
            if rng.random() < 0.4:
                ops.append({"op": "unrank", "r": rng.choice(bounds) + rng.choice([-1, 0, 0, 1]) if rng.random() < 0.6
                            else rng.randrange(50000 if not big else 5_000_000)})
                ops[-1]["r"] = max(0, ops[-1]["r"])
            elif rng.random() < 0.5:
                f = RO.factorial(n)
                ops.append({"op": "unrank_n", "n": n, "r": rng.choice([0, f - 1, f // 2, rng.randrange(f)])})
            else:
                ops.append({"op": "rank", "perm": common.rand_perm(rng, n) if rng.random() < 0.7 else rng.choice([list(range(n)), list(range(n - 1, -1, -1))])})
        elif r < 0.53:
            ops.append({"op": "order", "a": common.rand_perm(rng, rng.randint(0, 5)), "b": common.rand_perm(rng, rng.randint(0, 5))})
        elif r < 0.75:
            if seqs and rng.random() < 0.45:
                seq = rng.choice(seqs)
                if rng.random() < 0.5:
                    seq = _variant(rng, seq) or seq
            else:
                seq = _rand_seq(rng)
                seqs.append(seq)
            if rng.random() < 0.08:
                ops.append({"op": "interrupted_std", "seq": seq, "at": rng.randint(1, 12) if rng.random() < 0.7 else {"guided": round(rng.random(), 3)}})
            ops.append({"op": "std", "seq": seq, "via": rng.choice(["to_standard", "standardize", "from_iterable"]),
                        "cont": rng.choice(["list", "tuple", "iter", "gen"])})
        elif r < 0.81:
            ops.append({"op": "memo_flood" if rng.random() < 0.1 else "memo_clear", "salt": rng.randrange(1000)})
        elif r < 0.93:
            n = rng.randint(0, 10 if rng.random() < 0.8 else 12)
            ops.append({"op": "notation", "what": rng.choice(["str", "repr", "one_based", "from_integer1", "from_integer0", "validated_tuple",
                                                               "validated_str", "validated_list", "validated_gen", "validated_iter", "validated_map",
                                                               "one_based_gen", "perm_from_gen", "from_string_eps"]), "perm": common.rand_perm(rng, n)})
        elif r < 0.96:
            n = rng.randint(1, 5)
            p = common.rand_perm(rng, n)
            what = rng.choice(["range", "dup", "type"])
            if what == "range":
                how = rng.randrange(4)
                if how == 0:
                    p[rng.randrange(n)] = n + rng.randrange(3)
                elif how == 1:
                    p[rng.randrange(n)] = -1 - rng.randrange(n + 1)  # too small (a negative index would wrap around)
                elif how == 2:
                    p = [v - n for v in p]  # every entry negative, pairwise distinct
                else:
                    p = [v + 1 for v in p]  # one-based values given to the zero-based constructor
            elif what == "dup" and n >= 2:
                p[0] = p[1]
            else:
                what = "type"
                p[rng.randrange(n)] = None if rng.random() < 0.5 else 0.5
            ops.append({"op": "validated_error", "what": what, "seq": p, "cont": rng.choice(["tuple", "tuple", "gen", "iter"])})
        else:
            n = rng.choice([0, 1, 2, 2, 3])
            ops.append({"op": "mesh_rank", "perm": common.rand_perm(rng, n), "r": rng.randrange(2 ** ((n + 1) ** 2))})
    for iid in live:
        if rng.random() < 0.5:
            ops.append({"op": "iter_drain", "id": iid})
    return {"ops": ops, "keep_memo": rng.random() < 0.4}


def cases(rng, tier):
    yield gen_case(rng, tier)


# --- execution -------------------------------------------------------------------------------


def _decode_vals(seq):
    if seq["kind"] == "chars":
        return seq["text"]
    out = []
    for v in seq["vals"]:
        if isinstance(v, list):
            if v[0] == "b":
                out.append(bool(v[1]))
            elif v[0] == "f":
                out.append(Fraction(v[1], v[2]))
            else:
                out.append((v[1], v[2]))
        else:
            out.append(v)
    return out


_DRAIN_CAP = 6000


def perm_defect(pm, got, want):
    """None when `got` is the Perm with entries `want` (exact ints, usual
    notations), otherwise what is wrong with it."""
    if not isinstance(got, pm.Perm):
        return f"result is a {type(got).__name__}, not a Perm"
    if tuple(got) != tuple(want):
        return f"entries {tuple(got)}, expected {tuple(want)}"
    if any(type(v) is not int for v in got):  # noqa: E721  (bool / float entries compare equal but are not a permutation)
        return f"entries are not ints: {tuple(got)!r}"
    # the notations of the object must lead back to it (their exact spelling is not promised)
    try:
        back = eval(repr(got), {"Perm": pm.Perm})  # pylint: disable=eval-used
    except Exception as exc:  # pylint: disable=broad-except
        return f"repr {repr(got)!r} does not evaluate: {type(exc).__name__}"
    if tuple(back) != tuple(want) or any(type(v) is not int for v in back):  # noqa: E721
        return f"repr {repr(got)!r} evaluates to {tuple(back)!r}"
    if 0 < len(want) <= 10:
        try:
            back = pm.Perm.from_string(str(got))
        except Exception as exc:  # pylint: disable=broad-except
            return f"str {str(got)!r} does not parse: {type(exc).__name__}"
        if tuple(back) != tuple(want):
            return f"str {str(got)!r} parses to {tuple(back)!r}"
    return None


def execute(case):
    pm = common.lazy_permuta()
    hist = histsim.Hist()
    out = hist.out
    memo = getattr(pm.Perm, "_to_standard", None)
    if hasattr(memo, "cache_clear") and not case.get("keep_memo"):
        memo.cache_clear()
    cached_keys = {}
    state = {"flooded": False, "cleared": False}
    abst = []

    def ref_seq(kind, arg):
        """(finite) reference sequence for a generator, as a lazy iterator."""
        if kind == "of_length":
            return RO.lex_perms(arg)
        if kind == "up_to_length":
            return (p for n in range(arg + 1) for p in RO.lex_perms(n))
        if kind == "first":
            return iter(RO.first(arg))
        if kind == "mesh_of_length":
            return ((p, RO.mesh_cells(arg, r)) for p in RO.lex_perms(arg) for r in range(2 ** ((arg + 1) ** 2)))
        n = len(arg)
        return ((tuple(arg), RO.mesh_cells(n, r)) for r in range(2 ** ((n + 1) ** 2)))

    def conv_mesh(m):
        return (tuple(m.pattern), frozenset(m.shading))

    for idx, op in enumerate(case["ops"]):
        hist.op_index = idx
        kind = op["op"]
        try:
            if kind == "gen_new":
                gk, arg = op["kind"], op["arg"]
                if gk == "of_length":
                    make, conv = (lambda a=arg: pm.Perm.of_length(a)), tuple
                elif gk == "up_to_length":
                    make, conv = (lambda a=arg: pm.Perm.up_to_length(a)), tuple
                elif gk == "first":
                    make, conv = (lambda a=arg: pm.Perm.first(a)), tuple
                    out.probe("first_generator")
                elif gk == "mesh_of_length":
                    make, conv = (lambda a=arg: pm.MeshPatt.of_length(a)), conv_mesh
                    out.probe("mesh_of_length")
                else:
                    make, conv = (lambda a=arg: pm.MeshPatt.of_length(len(a), pm.Perm(a))), conv_mesh
                    out.probe("mesh_of_length")
                li = hist.new_iter(op["id"], make, {"kind": gk, "arg": arg, "ref": ref_seq(gk, arg), "checked": 0}, conv=conv)
                if li.error:
                    hist.violate("exception", {"op": gk, "type": li.error[0]}, f"{gk}({arg}) raised {li.error}")
                abst.append(("gen_new", gk))
            elif kind in ("iter_step", "iter_drain"):
                li = hist.iters.get(op["id"])
                if li is None or li.exhausted or li.closed:
                    continue
                others = [x for x in hist.iters.values() if x is not li and not x.exhausted and not x.closed and x.steps_taken]
                if others and li.steps_taken:
                    out.probe("interleaved_generators")
                    out.nontrivial = True
                k = op["k"] if kind == "iter_step" else _DRAIN_CAP
                before = len(li.items)
                hist.step(op["id"], k)
                if li.error:
                    hist.violate("exception", {"op": li.meta["kind"], "type": li.error[0]}, f"generator raised {li.error}")
                    break
                for item in li.items[before:]:
                    want = next(li.meta["ref"], None)
                    if item == want and li.meta["kind"] in ("of_length", "up_to_length", "first") and any(type(v) is not int for v in item):  # noqa: E721
                        want = ("<ints>",) + tuple(want)
                    if item != want:
                        hist.violate("wrong_sequence", {"op": li.meta["kind"]},
                                     f"{li.meta['kind']}({li.meta['arg']}): item #{li.meta['checked']} is {item}, the order says {want}")
                        break
                    li.meta["checked"] += 1
                if li.exhausted and not hist.violations:
                    extra = next(li.meta["ref"], None)
                    if extra is not None:
                        hist.violate("wrong_sequence", {"op": li.meta["kind"], "what": "short"},
                                     f"{li.meta['kind']}({li.meta['arg']}) stopped after {li.meta['checked']} items, next should be {extra}")
                li.items = []  # checked incrementally; keep memory flat
                abst.append((kind, len(others)))
            elif kind == "iter_interrupt":
                import os  # pylint: disable=import-outside-toplevel

                li = hist.iters.get(op["id"])
                if li is None or li.exhausted or li.closed:
                    continue

                def pull(it=li.it, k=op["k"]):
                    for _ in range(k):
                        try:
                            next(it)
                        except StopIteration:
                            return

                status, _r, _n = histsim.run_interruptible(pull, op["at"], [os.path.join(core.repo_dir(), "permuta") + os.sep])
                if status == "interrupted":
                    out.fault("interrupted_call")
                    out.probe("interrupted_generator")
                hist.abandon(op["id"])  # a generator that saw an exception is finished; nothing more is asked of it
                hist.log.add("iter_interrupt", op["id"], status)
            elif kind == "iter_abandon":
                hist.abandon(op["id"])
            elif kind == "unrank":
                gobj = pm.Perm.unrank(op["r"])
                got = tuple(gobj)
                want = RO.unrank(op["r"])
                if got == want and perm_defect(pm, gobj, want):
                    hist.violate("wrong_unrank", {"with_length": False, "what": "object"}, f"unrank({op['r']}): {perm_defect(pm, gobj, want)}")
                hist.log.add("unrank", op["r"], got)
                if op["r"] in (0, 1, 3, 9, 33, 153, 873, 5913, 46233, 2, 4, 10, 34, 154, 874, 5914, 46234):
                    out.probe("boundary_rank")
                if got != want:
                    hist.violate("wrong_unrank", {"with_length": False}, f"unrank({op['r']}) = {got}, the order says {want}")
                abst.append(("unrank",))
            elif kind == "unrank_n":
                got = tuple(pm.Perm.unrank(op["r"], op["n"]))
                want = RO.unrank_in_length(op["r"], op["n"])
                hist.log.add("unrank_n", op["r"], op["n"], got)
                if op["r"] in (0, RO.factorial(op["n"]) - 1):
                    out.probe("boundary_rank")
                if got != want:
                    hist.violate("wrong_unrank", {"with_length": True}, f"unrank({op['r']}, {op['n']}) = {got}, the order says {want}")
                abst.append(("unrank_n",))
            elif kind == "rank":
                p = tuple(op["perm"])
                got = pm.Perm(p).rank()
                want = RO.rank(p)
                hist.log.add("rank", p, got)
                if got != want:
                    hist.violate("wrong_rank", {}, f"rank({p}) = {got}, the order says {want}")
                elif tuple(pm.Perm.unrank(got)) != p:
                    hist.violate("wrong_unrank", {"with_length": False, "what": "not_inverse"}, f"unrank(rank({p})) != {p}")
                abst.append(("rank",))
            elif kind == "order":
                a, b = tuple(op["a"]), tuple(op["b"])
                pa, pb = pm.Perm(a), pm.Perm(b)
                got = (pa < pb, pa == pb, pa > pb)
                want = (RO.rank(a) < RO.rank(b), a == b, RO.rank(a) > RO.rank(b))
                hist.log.add("order", a, b, got)
                if got != want:
                    hist.violate("wrong_order", {}, f"{a} vs {b}: (<, ==, >) = {got}, ranks say {want}")
                elif (pa.rank() < pb.rank()) is not got[0]:
                    hist.violate("wrong_order", {"what": "rank_inconsistent"}, f"{a} < {b} is {got[0]} but the ranks compare the other way")
            elif kind == "std":
                vals = _decode_vals(op["seq"])
                want = RP.std(list(vals))
                key = TypedKey(tuple(vals))
                sig = tuple(type(v).__name__ for v in vals)
                status = "miss"
                if key in cached_keys:
                    status = "hit"
                    out.probe("memo_hit")
                    out.nontrivial = True
                    if state["flooded"]:
                        out.probe("after_flood")
                    if sig not in cached_keys[key]:
                        out.probe("memo_equal_distinct_key")
                if len(set(map(repr, vals))) < len(vals):
                    out.probe("ties")
                if state["cleared"]:
                    out.probe("after_clear")
                if op["cont"] == "list":
                    arg = list(vals)
                elif op["cont"] == "tuple":
                    arg = tuple(vals)
                elif op["cont"] == "iter":
                    arg = iter(list(vals))
                else:
                    arg = (v for v in vals)
                if isinstance(vals, str) and op["cont"] in ("list", "tuple"):
                    arg = vals
                got = getattr(pm.Perm, op["via"])(arg)
                hist.log.add("std", core.canon(repr(vals)), tuple(got))
                cached_keys.setdefault(key, set()).add(sig)
                defect = perm_defect(pm, got, want)
                if defect is not None:
                    hist.violate("wrong_standardisation", {"memo": status},
                                 f"{op['via']}({vals!r}): {defect} (left-to-right tie-breaking gives {want})")
                abst.append(("std", status, state["flooded"]))
            elif kind == "interrupted_rank":
                import os  # pylint: disable=import-outside-toplevel

                n, r = op["n"], op["r"]
                if op["what"] == "unrank":
                    fn = lambda: pm.Perm.unrank(sum(RO.factorial(k) for k in range(n)) + r)  # noqa: E731
                elif op["what"] == "unrank_n":
                    fn = lambda: pm.Perm.unrank(r, n)  # noqa: E731
                else:
                    fn = lambda: pm.Perm(RO.unrank_in_length(r, n)).rank()  # noqa: E731
                pref = [os.path.join(core.repo_dir(), "permuta") + os.sep]
                at = op["at"]
                if isinstance(at, dict):
                    at = histsim.guided_interrupt_at(fn, pref, at["guided"])
                    out.probe("guided_interrupt" if at else "guided_interrupt_no_state_change")
                status, _r, _n = histsim.run_interruptible(fn, at or 10 ** 9, pref)
                if status == "interrupted":
                    out.fault("interrupted_call")
                    out.probe("interrupted_rank_unrank")
                hist.log.add("interrupted_rank", op["what"], status)
            elif kind == "interrupted_std":
                import os  # pylint: disable=import-outside-toplevel

                vals = _decode_vals(op["seq"])
                pref = [os.path.join(core.repo_dir(), "permuta") + os.sep]
                at = op["at"]
                if isinstance(at, dict):
                    at = histsim.guided_interrupt_at(lambda v=vals: pm.Perm.to_standard(list(v)), pref, at["guided"])
                    out.probe("guided_interrupt" if at else "guided_interrupt_no_state_change")
                status, _r, _n = histsim.run_interruptible(lambda v=vals: pm.Perm.to_standard(list(v)), at or 10 ** 9, pref)
                if status == "interrupted":
                    out.fault("interrupted_call")
                    out.probe("interrupted_call")
                else:
                    cached_keys.setdefault(TypedKey(tuple(vals)), set()).add(tuple(type(v).__name__ for v in vals))
                hist.log.add("interrupted_std", status)
            elif kind == "memo_clear":
                if hasattr(memo, "cache_clear"):
                    memo.cache_clear()
                cached_keys.clear()
                state["cleared"] = True
                out.fault("memo_clear")
                hist.log.add("memo_clear")
            elif kind == "memo_flood":
                # more distinct keys than the memo holds: earlier entries are evicted
                base = op["salt"] * 100000
                for i in range(10050):
                    pm.Perm.to_standard((base + i, 0, base + i + 1))
                state["flooded"] = True
                out.fault("memo_flood_eviction")
                hist.log.add("memo_flood")
            elif kind == "notation":
                p = tuple(op["perm"])
                perm = pm.Perm(p)
                what = op["what"]
                n = len(p)
                got = None
                if what == "str" and n <= 10:
                    got = pm.Perm.from_string(str(perm))
                elif what == "repr":
                    got = eval(repr(perm), {"Perm": pm.Perm})  # pylint: disable=eval-used
                elif what == "one_based":
                    got = pm.Perm.one_based([v + 1 for v in p])
                elif what == "from_integer1" and 1 <= n <= 9:
                    got = pm.Perm.from_integer(int("".join(str(v + 1) for v in p)))
                elif what == "from_integer0" and 1 <= n <= 10 and (p[0] != 0 or n == 1):
                    got = pm.Perm.from_integer(int("".join(str(v) for v in p)))
                elif what == "validated_tuple":
                    got = pm.Perm.from_iterable_validated(p)
                elif what == "validated_list":
                    got = pm.Perm.from_iterable_validated(list(p))
                elif what == "validated_str" and n <= 10:
                    got = pm.Perm.from_iterable_validated("".join(str(v) for v in p))
                elif what == "validated_gen":
                    got = pm.Perm.from_iterable_validated(v for v in p)
                elif what == "validated_iter":
                    got = pm.Perm.from_iterable_validated(iter(list(p)))
                elif what == "validated_map":
                    got = pm.Perm.from_iterable_validated(map(int, list(p)))
                elif what == "one_based_gen":
                    got = pm.Perm.one_based(v + 1 for v in p)
                elif what == "perm_from_gen":
                    got = pm.Perm(v for v in p)
                elif what == "from_string_eps" and n == 0:
                    got = pm.Perm.from_string(str(perm))
                if got is not None:
                    hist.log.add("notation", what, tuple(got))
                    defect = perm_defect(pm, got, p)
                    if defect is not None:
                        hist.violate("notation_round_trip", {"what": what}, f"{what} round trip of {p}: {defect}")
                abst.append(("notation", what))
            elif kind == "validated_error":
                out.probe("error_case")
                want = TypeError if op["what"] == "type" else ValueError
                try:
                    arg = tuple(op["seq"])
                    if op.get("cont") == "gen":
                        arg = (v for v in op["seq"])
                    elif op.get("cont") == "iter":
                        arg = iter(list(op["seq"]))
                    res = pm.Perm.from_iterable_validated(arg)
                    hist.violate("validation_missed", {"what": op["what"]}, f"from_iterable_validated({op['seq']}) returned {tuple(res)} instead of raising {want.__name__}")
                except (TypeError, ValueError) as exc:
                    if not isinstance(exc, want):
                        hist.violate("validation_wrong_error", {"what": op["what"]}, f"from_iterable_validated({op['seq']}) raised {type(exc).__name__}, documented: {want.__name__}")
                hist.log.add("validated_error", op["what"])
            elif kind == "mesh_rank":
                p = tuple(op["perm"])
                n = len(p)
                m = pm.MeshPatt.unrank(pm.Perm(p), op["r"])
                got_cells = frozenset(m.shading)
                want_cells = RO.mesh_cells(n, op["r"])
                hist.log.add("mesh_rank", p, op["r"], sorted(got_cells))
                if tuple(m.pattern) != p or got_cells != want_cells:
                    hist.violate("wrong_mesh_unrank", {}, f"MeshPatt.unrank({p}, {op['r']}) has shading {sorted(got_cells)}, bit order says {sorted(want_cells)}")
                elif m.rank() != op["r"]:
                    hist.violate("wrong_mesh_rank", {}, f"MeshPatt.unrank({p}, {op['r']}).rank() = {m.rank()}")
                abst.append(("mesh_rank",))
        except Exception as exc:  # pylint: disable=broad-except
            hist.violate("exception", {"op": kind if kind != "notation" else f"notation:{op['what']}", "type": type(exc).__name__},
                         f"{op}: {type(exc).__name__}: {exc}")
        if hist.violations:
            break
    out.abstraction = str(hash(tuple(abst)))
    return hist.finish()


class TypedKey:
    """A memo key as the lru_cache sees it (equality of the tuples), remembering
    the element types so equal-but-distinct spellings can be recognised."""

    def __init__(self, key):
        self.key = key
        hash(key)

    def __hash__(self):
        return hash(self.key)

    def __eq__(self, other):
        if isinstance(other, TypedKey):
            return self.key == other.key
        return self.key == other


def shrink_targets(case):  # pylint: disable=unused-argument
    return [["ops"]]


def simplify(case):
    for i, op in enumerate(case["ops"]):
        for field in ("k", "arg", "r", "n"):
            if isinstance(op.get(field), int) and not isinstance(op.get(field), bool) and op[field] > 0:
                c = copy.deepcopy(case)
                c["ops"][i][field] = op[field] // 2
                yield c
        if op.get("op") == "std" and op["seq"].get("vals"):
            c = copy.deepcopy(case)
            c["ops"][i]["seq"]["vals"] = op["seq"]["vals"][:-1]
            yield c
