"""By-definition reference implementations on plain tuples.

Nothing here imports permuta.  Permutations are tuples over 0..n-1, mesh
patterns are pairs (tuple, frozenset of (column, row) cells).
"""
from itertools import combinations, permutations


def std(seq):
    """Standardisation: the permutation order-isomorphic to seq, ties broken
    left to right (an earlier equal element gets the smaller value)."""
    order = sorted(range(len(seq)), key=lambda i: (seq[i], i))
    out = [0] * len(seq)
    for rank, idx in enumerate(order):
        out[idx] = rank
    return tuple(out)


def is_perm(seq):
    return sorted(seq) == list(range(len(seq)))


def order_isomorphic(a, b):
    """a, b sequences of distinct values of the same length."""
    n = len(a)
    if n != len(b):
        return False
    for i in range(n):
        for j in range(i + 1, n):
            if (a[i] < a[j]) != (b[i] < b[j]):
                return False
    return True


def occurrences(patt, perm):
    """All strictly increasing index tuples of perm whose entries are
    order-isomorphic to patt, in lexicographic order."""
    k = len(patt)
    res = []
    for idx in combinations(range(len(perm)), k):
        if order_isomorphic([perm[i] for i in idx], patt):
            res.append(idx)
    return res


def coloured_occurrences(patt, perm, patt_colours, perm_colours):
    return [
        occ
        for occ in occurrences(patt, perm)
        if all(perm_colours[i] == patt_colours[k] for k, i in enumerate(occ))
    ]


def contains(perm, patt):
    k = len(patt)
    if k > len(perm):
        return False
    for idx in combinations(range(len(perm)), k):
        if order_isomorphic([perm[i] for i in idx], patt):
            return True
    return False


def mesh_occurrences(patt, shading, perm):
    """Occurrences of the mesh pattern (patt, shading) in the permutation perm.

    Cell (a, b), 0 <= a, b <= k, is the region strictly between the a-th and
    (a+1)-th chosen positions and strictly between the b-th and (b+1)-th
    smallest chosen values (with sentinels -1 and n)."""
    k = len(patt)
    n = len(perm)
    res = []
    for idx in combinations(range(n), k):
        vals = [perm[i] for i in idx]
        if not order_isomorphic(vals, patt):
            continue
        xs = (-1,) + tuple(idx) + (n,)
        ys = (-1,) + tuple(sorted(vals)) + (n,)
        ok = True
        for a, b in shading:
            for j in range(xs[a] + 1, xs[a + 1]):
                if ys[b] < perm[j] < ys[b + 1]:
                    ok = False
                    break
            if not ok:
                break
        if ok:
            res.append(idx)
    return res


def mesh_contains(perm, patt, shading):
    k = len(patt)
    n = len(perm)
    if k > n:
        return False
    for idx in combinations(range(n), k):
        vals = [perm[i] for i in idx]
        if not order_isomorphic(vals, patt):
            continue
        xs = (-1,) + tuple(idx) + (n,)
        ys = (-1,) + tuple(sorted(vals)) + (n,)
        ok = True
        for a, b in shading:
            for j in range(xs[a] + 1, xs[a + 1]):
                if ys[b] < perm[j] < ys[b + 1]:
                    ok = False
                    break
            if not ok:
                break
        if ok:
            return True
    return False


# --- symmetries -----------------------------------------------------------


def reverse(p):
    return tuple(reversed(p))


def complement(p):
    n = len(p)
    return tuple(n - 1 - v for v in p)


def inverse(p):
    out = [0] * len(p)
    for i, v in enumerate(p):
        out[v] = i
    return tuple(out)


def symmetries(p):
    """The eight images of p under the dihedral group of the square, as a list
    (with repetitions when p has symmetry), in a fixed order."""
    res = []
    for q in (p, inverse(p)):
        res.extend([q, reverse(q), complement(q), reverse(complement(q))])
    return res


SYMMETRY_NAMES = ["id", "r", "c", "rc", "i", "ir", "ic", "irc"]


def all_perms(n):
    return list(permutations(range(n)))


def is_increasing(p):
    return all(p[i] < p[i + 1] for i in range(len(p) - 1))


def is_decreasing(p):
    return all(p[i] > p[i + 1] for i in range(len(p) - 1))
