"""Helpers shared by the check modules: seeded generation of bases / patterns
as JSON data, and construction of the corresponding permuta objects."""
from ref import classes as RC


def lazy_permuta():
    import permuta  # pylint: disable=import-outside-toplevel

    return permuta


# --- generation (pure data) --------------------------------------------------


def rand_perm(rng, n):
    p = list(range(n))
    rng.shuffle(p)
    return p


def rand_shading(rng, k, density=None):
    cells = [(a, b) for a in range(k + 1) for b in range(k + 1)]
    if density is None:
        density = rng.choice([0.0, 0.1, 0.25, 0.5, 0.8, 1.0])
    sh = [list(c) for c in cells if rng.random() < density]
    return sh


def gen_classical_basis(rng, max_patts=3, max_len=4, min_len=1):
    k = rng.choice([1, 1, 2, 2, 3][: max(1, max_patts + 2)])
    k = min(k, max_patts)
    items = []
    for _ in range(k):
        n = rng.choice([ln for ln in (1, 2, 2, 3, 3, 3, 3, 4, 4, 4, 5) if min_len <= ln <= max_len])
        items.append(["c", rand_perm(rng, n)])
    return items


def gen_mesh_basis(rng, max_patts=2, max_len=3, allow_classical=True):
    k = rng.choice([1, 1, 2][:max(1, max_patts + 1)])
    k = min(k, max_patts)
    items = []
    for _ in range(k):
        n = rng.choice([ln for ln in (1, 2, 2, 3, 3) if ln <= max_len])
        items.append(["m", rand_perm(rng, n), rand_shading(rng, n)])
    if allow_classical and rng.random() < 0.3:
        items.append(["c", rand_perm(rng, rng.choice([2, 3, 3, 4]))])
    return items


def is_mesh_items(items):
    return any(it[0] == "m" for it in items)


def to_ref(items):
    return RC.norm_basis(
        [("c", tuple(it[1])) if it[0] == "c" else ("m", tuple(it[1]), tuple(tuple(c) for c in it[2]))
         for it in items])


BASIS_FORMS_CLASSICAL = ["Basis", "list", "tuple", "string0", "string1", "dup", "redundant", "from_iterable", "set", "iter", "gen"]
BASIS_FORMS_MESH = ["MeshBasis", "list", "tuple", "dup", "from_iterable", "iter", "gen", "gen_from_iterable"]


def gen_form(rng, items):
    return rng.choice(BASIS_FORMS_MESH if is_mesh_items(items) else BASIS_FORMS_CLASSICAL)


# --- construction (permuta objects) -------------------------------------------


def mk_patt(item):
    pm = lazy_permuta()
    if item[0] == "c":
        return pm.Perm(item[1])
    return pm.MeshPatt(pm.Perm(item[1]), [tuple(c) for c in item[2]])


def mk_basis_obj(items):
    """The Basis / MeshBasis object of a JSON basis (built ahead of time, so that the Av
    object created from it later is the next allocation of its size)."""
    from permuta.perm_sets.basis import Basis, MeshBasis  # pylint: disable=import-outside-toplevel

    patts = [mk_patt(it) for it in items]
    return MeshBasis(*patts) if is_mesh_items(items) else Basis(*patts)


def mk_av(items, form, salt=0, patts=None):
    """Build Av(...) from the JSON basis in the requested argument form (from the given
    pattern objects if any, e.g. objects that several threads share)."""
    pm = lazy_permuta()
    from permuta.perm_sets.basis import Basis, MeshBasis  # pylint: disable=import-outside-toplevel

    patts = [mk_patt(it) for it in items] if patts is None else list(patts)
    if salt and len(patts) > 1:
        r = salt % len(patts)
        patts = patts[r:] + patts[:r]
    if form == "Basis":
        return pm.Av(Basis(*patts))
    if form == "MeshBasis":
        return pm.Av(MeshBasis(*patts))
    if form == "list":
        return pm.Av(list(patts))
    if form == "tuple":
        return pm.Av(tuple(patts))
    if form == "set":
        return pm.Av(set(patts))
    if form == "iter":
        return pm.Av(iter(list(patts)))
    if form == "gen":
        return pm.Av(p for p in patts)
    if form == "gen_from_iterable":
        return pm.Av.from_iterable(p for p in patts)
    if form == "from_iterable":
        return pm.Av.from_iterable(list(patts))
    if form == "dup":
        return pm.Av(list(reversed(patts)) + patts)
    if form == "redundant":
        # add a pattern that contains a basis element: it must be pruned
        extra = pm.Perm(tuple(patts[0]) + (len(patts[0]),))
        return pm.Av([extra] + patts)
    if form == "string0":
        if any(len(p) > 9 for p in patts):
            return pm.Av(list(patts))
        return pm.Av.from_string("_".join("".join(str(v) for v in p) for p in patts))
    if form == "string1":
        if any(len(p) > 9 for p in patts):
            return pm.Av(list(patts))
        return pm.Av.from_string(", ".join("".join(str(v + 1) for v in p) for p in patts))
    raise ValueError(form)


def plain(perms):
    return [tuple(p) for p in perms]


_LOCKS = {"done": False, "registry": []}


def isolate_locks():
    """Av._CACHE_LOCK is a multiprocessing.Lock created at import time: forked
    worker processes would all contend on that one cross-process semaphore.
    Replace every lock of the permuta modules (module globals, class attributes, attributes
    of module-level objects, lock factories) by a process-local SimLock (an ordinary
    uncontended lock outside a thread simulation)."""
    if _LOCKS["done"]:
        return _LOCKS["registry"]
    import sys  # pylint: disable=import-outside-toplevel

    import permuta.perm_sets.basis  # noqa: F401  pylint: disable=import-outside-toplevel,unused-import
    import permuta.perm_sets.permset  # noqa: F401  pylint: disable=import-outside-toplevel,unused-import
    from sim import threadsim  # pylint: disable=import-outside-toplevel

    import permuta  # noqa: F401  pylint: disable=import-outside-toplevel,unused-import
    import permuta.bisc  # noqa: F401  pylint: disable=import-outside-toplevel,unused-import
    import permuta.permutils.pin_words  # noqa: F401  pylint: disable=import-outside-toplevel,unused-import

    # every permuta module: a thread pre-empted while it holds a real lock of, say, a memo in
    # perm.py would block the simulated threads for real (the simulator would hang)
    mods = [m for name, m in sorted(sys.modules.items()) if (name == "permuta" or name.startswith("permuta.")) and m is not None]
    _LOCKS["registry"] = threadsim.install_sim_locks(mods)
    _LOCKS["done"] = True
    return _LOCKS["registry"]


def clear_functools_caches():
    """Empty every functools cache of the permuta modules (module-level functions and
    class attributes): a history that does not want to start on what earlier histories of
    the process left behind calls this first, so that executed-line counts (the positions
    of injected interruptions) are a function of the case alone."""
    import sys  # pylint: disable=import-outside-toplevel

    n = 0
    for name, mod in sorted(sys.modules.items()):
        if mod is None or not (name == "permuta" or name.startswith("permuta.")):
            continue
        for val in list(vars(mod).values()):
            owners = [val]
            if isinstance(val, type) and getattr(val, "__module__", None) == name:
                owners += [getattr(c, "__func__", c) for c in list(vars(val).values())]
            for cand in owners:
                cand = getattr(cand, "__func__", cand)
                clear = getattr(cand, "cache_clear", None)
                if callable(clear) and callable(getattr(cand, "cache_info", None)):
                    try:
                        clear()
                        n += 1
                    except Exception:  # pylint: disable=broad-except
                        pass
    return n
