"""Independent definitions of the permutation families the shipped BiSC data
sets are named after.  Plain tuples, nothing imported from permuta.  Where the
library documents a convention (dihedral / alternating group for n <= 2) that
convention is part of the name and is followed."""
from bisect import bisect_left

from . import patterns as P


def stack_pass(seq):
    """One pass through a stack (West's operator S): an entry is popped to the
    output as soon as a larger one arrives."""
    stack, out = [], []
    for x in seq:
        while stack and stack[-1] < x:
            out.append(stack.pop())
        stack.append(x)
    while stack:
        out.append(stack.pop())
    return out


def is_sorted(seq):
    return all(seq[i] < seq[i + 1] for i in range(len(seq) - 1))


def stack_sortable(p):
    return is_sorted(stack_pass(p))


def west_2_stack_sortable(p):
    return is_sorted(stack_pass(stack_pass(p)))


def _quick_pass(seq):
    """One pass of the quicksort operator: split at the last strong fixed point
    (an entry larger than everything before it and smaller than everything
    after it) when there is one, otherwise partition around the first entry."""
    n = len(seq)
    if n == 0:
        return []
    last = -1
    for i in range(n):
        if all(seq[j] < seq[i] for j in range(i)) and all(seq[j] > seq[i] for j in range(i + 1, n)):
            last = i
    if last >= 0:
        return _quick_pass(seq[:last]) + [seq[last]] + _quick_pass(seq[last + 1:])
    piv = seq[0]
    return [x for x in seq if x < piv] + [piv] + [x for x in seq if x > piv]


def quick_sortable(p):
    return is_sorted(_quick_pass(list(p)))


def smooth(p):
    return not P.contains(p, (0, 2, 1, 3)) and not P.contains(p, (1, 0, 3, 2))


def forest_like(p):
    return not P.contains(p, (0, 2, 1, 3)) and not P.mesh_contains(p, (1, 0, 3, 2), ((2, 2),))


def baxter(p):
    """No 2-41-3 and no 3-14-2 (the middle two entries adjacent)."""
    n = len(p)
    for j in range(n - 1):
        a, b = p[j], p[j + 1]
        if a > b:
            # 2-41-3: some earlier x and later y with b < x < y < a
            lo_left = [x for x in p[:j] if b < x < a]
            if lo_left:
                m = min(lo_left)
                if any(m < y < a for y in p[j + 2:]):
                    return False
        else:
            # 3-14-2: some earlier x and later y with a < y < x < b
            left = [x for x in p[:j] if a < x < b]
            if left:
                m = max(left)
                if any(a < y < m for y in p[j + 2:]):
                    return False
    return True


def simsun(p):
    """For every k the entries smaller than k, in their order of appearance,
    contain no double descent."""
    n = len(p)
    for k in range(3, n + 1):
        sub = [x for x in p if x < k]
        for i in range(len(sub) - 2):
            if sub[i] > sub[i + 1] > sub[i + 2]:
                return False
    return True


def dihedral(p):
    n = len(p)
    if n <= 2:
        return False  # documented convention of the library
    c = p[0]
    return all(p[i] == (c + i) % n for i in range(n)) or all(p[i] == (c - i) % n for i in range(n))


def in_alternating_group(p):
    n = len(p)
    if n == 0:
        return True
    if n < 3:
        return n % 2 == 1  # documented convention of the library
    inv = sum(1 for i in range(n) for j in range(i + 1, n) if p[i] > p[j])
    return inv % 2 == 0


def rsk_shape(p):
    """Row lengths of the insertion tableau (Schensted row insertion)."""
    rows = []
    for x in p:
        r = 0
        while True:
            if r == len(rows):
                rows.append([x])
                break
            row = rows[r]
            i = bisect_left(row, x)
            if i == len(row):
                row.append(x)
                break
            x, row[i] = row[i], x
            r += 1
    return [len(r) for r in rows]


def _shape_contains(shape, sub):
    return len(shape) >= len(sub) and all(s <= t for s, t in zip(sub, shape))


def yt_perm_avoids_22(p):
    return not _shape_contains(rsk_shape(p), [2, 2])


def yt_perm_avoids_32(p):
    return not _shape_contains(rsk_shape(p), [3, 2])


_MESH_6 = ((0, 1, 5, 2, 3, 4), ((1, 6), (4, 5), (4, 6)))


def av_231_and_mesh(p):
    if P.contains(p, (1, 2, 0)):
        return False
    return not P.mesh_contains(p, _MESH_6[0], _MESH_6[1])


FAMILIES = {
    "Baxter": baxter,
    "SimSun": simsun,
    "West_2_stack_sortable": west_2_stack_sortable,
    "av_231_and_mesh": av_231_and_mesh,
    "dihedral": dihedral,
    "forest_like": forest_like,
    "in_alternating_group": in_alternating_group,
    "quick_sortable": quick_sortable,
    "smooth": smooth,
    "stack_sortable": stack_sortable,
    "yt_perm_avoids_22": yt_perm_avoids_22,
    "yt_perm_avoids_32": yt_perm_avoids_32,
}


def self_check():
    from itertools import permutations

    def count(f, n):
        return sum(1 for q in permutations(range(n)) if f(q))

    assert [count(stack_sortable, n) for n in range(7)] == [1, 1, 2, 5, 14, 42, 132]
    assert [count(west_2_stack_sortable, n) for n in range(7)] == [1, 1, 2, 6, 22, 91, 408]
    assert [count(baxter, n) for n in range(7)] == [1, 1, 2, 6, 22, 92, 422]
    assert [count(simsun, n) for n in range(7)] == [1, 1, 2, 5, 16, 61, 272]
    assert [count(smooth, n) for n in range(7)] == [1, 1, 2, 6, 22, 88, 366]
    assert [count(dihedral, n) for n in range(6)] == [0, 0, 0, 6, 8, 10]
    assert [count(in_alternating_group, n) for n in range(6)] == [1, 1, 0, 3, 12, 60]
    # involution-free facts about RSK: number of permutations whose shape has one row / one column
    assert rsk_shape((0, 1, 2, 3)) == [4] and rsk_shape((3, 2, 1, 0)) == [1, 1, 1, 1]
    assert rsk_shape((1, 0, 3, 2)) == [2, 2] and rsk_shape((2, 0, 1)) == [2, 1]
    # shape avoids [2,2] iff it is a hook: sum over hooks of f^lambda squared = C(2n-2, n-1)
    assert [count(yt_perm_avoids_22, n) for n in range(1, 7)] == [1, 2, 6, 20, 70, 252]
    assert [count(forest_like, n) for n in range(6)] == [1, 1, 2, 6, 22, 89]
    return True
