#!/bin/bash
# Runs every self-test of the machinery: determinism of every check (digest comparison) and
# sensitivity (all seeded mutants incl. the must-stay-silent ones).  Takes 30-60 minutes.
cd "$(dirname "$0")/.." || exit 2
rc=0
for p in C01 C02 C07 C08 C09 C13 C20; do
  selftest/determinism.py $p --n ${DET_N:-300} 2>&1 | grep -v "^WARNING" | tail -2 || rc=1
done
selftest/sensitivity.py "$@" 2>&1 | grep -v "^WARNING" || rc=1
exit $rc
