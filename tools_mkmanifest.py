import json
NA = {
 "C03": "pure function of (mesh pattern, shading, permutation): no schedule, clock, I/O, fault or shared mutable state in the statement or the anchored code (its only state is the per-pattern memo decided under C01); generating inputs for it would be property-based testing, not simulation",
 "C04": "the eight symmetries are pure maps on tuples and cell sets; the group laws quantify over inputs only, nothing to schedule, delay or fail",
 "C05": "the basis constructor is a pure function of its argument list ('any order' is an input permutation, not a schedule); the one stateful clause (instance sharing through the class cache) is exercised as a probe under C02",
 "C06": "mesh-in-mesh containment is pure index arithmetic on immutable data; no history, schedule or fault can influence it",
 "C10": "algebraic and structural operations are pure functions returning new tuples",
 "C11": "statistics are pure functions of one permutation; distribution/preservation tools are pure functions of the data passed in",
 "C12": "sorting operators, Simion-Schmidt and family predicates are pure functions of their input",
 "C14": "pin-word decoding and containment are pure string/rational computations; the lru_cached tables depend on the length argument alone and the statement quantifies over inputs only",
 "C15": "automaton construction and acceptance are pure functions of (basis, word); its single storage sentence is the same observation as C20's second clause and is decided there",
 "C16": "a pure decision on the basis (fixed tables plus automaton finiteness); no nondeterminism or fault surface",
 "C17": "BiSC is a pure (if long) computation on its input set; the one place it reads files goes through the reader decided under C20",
 "C18": "shading-lemma tests and point insertion are pure functions of (pattern, cell)",
 "C19": "strategy applicability is a pure function of the basis",
}
CHECKS = {
 "C09": dict(engine="histsim", category="exploration", design_ref="DESIGN.md section 3 / C09",
   text="Seeded search over histories of generator use and of the shared standardisation memo: Perm.of_length / up_to_length / first and MeshPatt.of_length generators are live tasks advanced in seeded interleavings and compared item by item with an independent recursive lexicographic enumeration; rank / unrank (with and without length) on seeded and boundary ranks against a Lehmer-code reference, mutual consistency with < ; standardisation of sequences with repetitions over ints, floats, bools, Fractions, strings and tuples - including equal-but-distinct memo keys - before and after the lru_cache is cleared or flooded past its capacity, after interrupted standardisations and interrupted generator consumers, with 40 % of the histories starting on the memo left by earlier histories of the same process; results must be Perm objects with exact int entries; every notation round trip and the three documented error cases of the validated constructor; mesh rank / unrank bit order.",
   note="Trusted: ref/order.py (cross-checked against itertools.permutations at start-up), ref/patterns.std. Lengths <= 6-7 for generators, ranks < 50000, str round trip for length <= 10, integer notation where no leading zero is lost.",
   technique="deterministic cooperative simulation of generator interleavings and memo histories (clear / eviction / equal-but-distinct keys), seeded search, independent order / rank reference"),
 "C13": dict(engine="histsim", category="exploration", design_ref="DESIGN.md section 3 / C13",
   text="Seeded search over call histories on the process-wide memo tables: a pool of bases over a small shared universe of permutations (including rotated / inverted images of each other) is queried through every entry point - permutils functions, Av methods, the poly / insenc CLI functions in-process - with the basis delivered as list, tuple, set, frozenset, Basis, dict view, deque, generator, one-shot iterator, map or reversed object, permuted and with repetitions, and on its eight symmetric images (computed by the reference, not by permuta), with the memo tables flushed, calls interrupted at a seeded executed line, all class objects recycled (Av.clear_cache + gc + re-creation in another order) and 40 % of the histories starting on the memo tables left by earlier histories of the same process; every verdict is compared with the structure theorems re-implemented by split search, and the verdicts are cross-checked against real enumeration through Av (Erdos-Szekeres bound, no empty level, Fibonacci lower bound).",
   note="Trusted: ref/growth.py (ten classes by brute-force split search, pinned by 2^n-n, 2^(n-1), Fibonacci counts and by the inverse relation between vertical and horizontal classes). Basis permutations of length <= 5 (6 in thorough), enumeration to length 6-7.",
   technique="deterministic simulation of call histories over shared memo tables with stream-kind and memo-loss faults, seeded search, structure-theorem oracle plus enumeration cross-checks"),
 "C20": dict(engine="histsim+simfs", category="fault_enumeration", design_ref="DESIGN.md section 3 / C20",
   text="Three parts. (1) Shipped data: complete enumeration - every shipped file is read through the real read_bisc_file and every level 0..N is compared with an independent definition of the named property on all n! permutations (about 1.9 million pairs, full stated length in both tiers). (2) Seeded write/read/store/load histories on an in-memory file system behind the modules' open / Path / os, strict oracle: a read returns exactly the dataset last written under that name, a never-written name is reported invalid, every automaton loaded from the database (also unions, also after restarts and chdir) is language-equivalent to a fresh computation; a sample of the histories also runs on a real temporary directory and must observe the same. (3) The same histories under injected faults: for histories of at most 6 operations every single-fault placement (each I/O call x error/crash x three write offsets), for longer ones seeded placements of up to 3 faults, plus power-loss restarts; relaxed oracle: old, new or reported invalid - never other data, never an automaton of another language. (4) Concurrent mode: 2-3 writer / reader tasks on one simulated directory, every I/O call a scheduling point of the thread simulator, same 'never other data' oracle plus a fresh-process sweep of the database afterwards.",
   note="Trusted: ref/families.py (independent definitions pinned by OEIS sequences), ref/dfa.py (product BFS), the simfs model (validated against a real directory on sampled histories), PinWords.make_dfa_for_perm of the tree under test as the 'fresh computation'. Two emptied shipped files are listed known findings.",
   technique="deterministic simulation of storage histories on a fault-injecting in-memory file system (single-fault enumeration + seeded multi-fault search + power loss), reference-model oracle; complete enumeration for the shipped data"),
 "C08": dict(engine="histsim+allocsim", category="exploration", design_ref="DESIGN.md section 3 / C08",
   text="Seeded search over histories of hash / set / dict / comparison / sort operations on a pool of Perm, MeshPatt, Bivincular/Vincular/CovincularPatt, Basis and MeshBasis objects (most with an equal twin built by another route), with allocation-history faults between any two observations: slot objects of chosen pymalloc size classes held and released, temporaries churned, deep recursion, gc, equal objects rebuilt, id reuse (an object freed and a different one built at its address), hash computations interrupted at a seeded line, objects derived from already-hashed ones through library operations, floods of thousands of distinct patterns (cache eviction) and deliberately constructed unequal patterns with equal hashes. Invariants after every step: first-observed hash never changes, equality matches the abstract value both ways, equal implies equal hash, lookups through twins succeed, trichotomy / antisymmetry / transitivity / sort stability of the order, (length, lexicographic) order for permutations. Every run ends with all objects hashed before and after a block of every small size class is taken. Batches also run under two other PYTHONHASHSEED values.",
   note="Trusted: abstract values computed from the JSON descriptors. The simulator chooses allocation events, not addresses: exposing an address-derived hash relies on pymalloc reusing a freed block (robust in practice). Cross-kind order (Perm vs mesh) is not demanded by the property and not checked.",
   technique="deterministic simulation of operation histories with allocation-history fault injection (allocsim), seeded search, abstract-value oracle"),
 "C01": dict(engine="histsim", category="exploration", design_ref="DESIGN.md section 3 / C01",
   text="Seeded search over search histories on shared pattern objects: occurrence generators are live tasks advanced in seeded interleavings (several generators of one pattern object on different targets at once), mixed with contains / avoids / avoids_set / in / counts / contained_in / avoided_by, with the per-object search-table memo flushed, pre-warmed, copied and pickled, searches interrupted at a seeded executed line, pattern objects recycled at the same address and patterns derived from used objects through library operations; every listing, prefix, boolean and count is compared with the definition (all index combinations filtered by order-isomorphism). In addition the whole bounded input domain (patterns <= 4 x targets <= 6 in quick, <= 5 x <= 7 in thorough) is enumerated completely, each pattern object reused for all targets. Histories are sampled, not proved.",
   note="Trusted: ref/patterns.py (combinations + order-isomorphism, pinned by hand-checked listings). Lengths bounded as stated.",
   technique="deterministic cooperative simulation of search histories with interleaved live generators and memo faults, seeded search plus complete enumeration of the bounded input domain, by-definition oracle"),
 "C02": dict(engine="histsim", category="exploration", design_ref="DESIGN.md section 3 / C02",
   text="Seeded search over query histories: a pool of 1-3 classes (classical and mesh bases) is driven through 5-30 operations - counts, enumerations, membership, subclass tests, creation and partial consumption of of_length / up_to_length / first iterators, clear_cache, re-creation from an equal basis in another form, other classes, dropped references and gc - and every response and every iterator prefix is compared with brute-force avoider sets. Fault kinds: calls interrupted at a seeded executed line (the caches keep whatever the call had done), all class objects recycled (dropped incl. class cache + gc, re-created in another order, so anything remembered per id() is stale), a few per cent of runs on large classes / deeper levels / 3-6x longer histories. Sampling of histories, not proof; eleven history/compaction/cache mutants are found within the quick budget, three behaviour-preserving refactors stay silent; three genuine defects of the pinned tree are listed as known findings.",
   note="Trusted: ref/classes.py (naive filter for mesh bases, max-insertion generation cross-checked against it for classical ones, pinned by Catalan / 2^(n-1) / C(n,2)+1 / Baxter). Lengths <= 6-7 (classical) and <= 5-6 (mesh). Order within a level and object identity are not part of the property and are not gated.",
   technique="deterministic cooperative simulation of operation histories with live iterator tasks and history faults, seeded search, brute-force reference oracle"),
 "C07": dict(engine="threadsim", category="exploration", design_ref="DESIGN.md section 3 / C07",
   text="Seeded search over thread schedules: the real Av code is run by 2-4 real threads under a deterministic baton-passing scheduler that can pre-empt before every bytecode of permuta/perm_sets and owns the lock; every response of every query is compared with a brute-force reference, deadlock / no progress / escaping exceptions are violations, and the shared cache is swept sequentially afterwards. Sampling of schedules, not proof; six lock-breaking mutants are found within the quick budget and four behaviour-preserving lock refactors stay silent.",
   note="Trusted: the brute-force reference in ref/classes.py (pinned by known counting sequences); that a context switch inside a callee outside permuta/perm_sets is equivalent to one just before/after the call; CPython with a GIL (switches only between bytecodes).",
   technique="deterministic thread-schedule simulation (baton-passing threads, opcode-level pre-emption, simulated lock) with seeded schedule search and reference-answer oracle"),
}
def build(claimed):
    m = {
     "version": 1,
     "setup_cmd": "/venv/bin/python -c \"import hypothesis, automata, sys; print('deps ok', sys.version.split()[0])\"",
     "hooks": {"guard": "PERMUTA_VERIF", "enable": "none needed: all seams are module globals / class attributes replaced from /verif at run time; no guarded source change exists in /repo",
               "baseline_off_cmd": "cd /repo && /venv/bin/python -m pytest -q -p no:cacheprovider --timeout=900",
               "source_commits": [], "add_only": True},
     "engines": [
       {"name": "threadsim", "path": "sim/threadsim.py", "serves_properties": ["C07"], "kind_free_text": "deterministic scheduler for real threads: baton passing, sys.settrace opcode pre-emption, SimLock, recorded schedule segments"},
       {"name": "allocsim", "path": "sim/allocsim.py", "serves_properties": ["C08"], "kind_free_text": "allocation-history injector: held/released slot objects per pymalloc size class, churn, recursion, gc, id reuse"},
       {"name": "histsim", "path": "sim/histsim.py", "serves_properties": ["C01", "C02", "C08", "C09", "C13", "C20"], "kind_free_text": "single-thread cooperative simulator: seeded operation histories interleaved with live library iterators and memo/alloc/I-O faults"},
       {"name": "simfs", "path": "sim/simfs.py", "serves_properties": ["C20"], "kind_free_text": "in-memory file system with durable/volatile layers and a per-I/O-call fault plan"},
     ],
     "checks": [],
     "notes": "All checks: ./check <id> --tier quick|thorough; exit 0 held / 1 VIOLATION / 2 HARNESS-ERROR. Replay: ./check <id> --replay <file>. Self-tests: selftest/determinism.py, selftest/sensitivity.py.",
     "not_applicable": [],
    }
    for pid in sorted(claimed):
        c = CHECKS[pid]
        m["checks"].append({
          "property_id": pid, "quick_cmd": f"./check {pid} --tier quick", "thorough_cmd": f"./check {pid} --tier thorough",
          "evidence_file": f"/verif/evidence/{pid}.json", "replay_cmd_template": f"./check {pid} --replay {{path}}",
          "engine": c["engine"], "level_claimed": {"category": c["category"], "text": c["text"], "design_ref": c["design_ref"]},
          "level_note": c["note"], "technique": c["technique"]})
    PENDING = "claimed in DESIGN.md, check not yet committed in this revision of /verif (being built); decided by deterministic simulation once present"
    allp = [f"C{i:02d}" for i in range(1, 21)]
    for pid in allp:
        if pid in claimed: continue
        m["not_applicable"].append({"property_id": pid, "reason": NA.get(pid, PENDING)})
    return m
if __name__ == "__main__":
    import sys
    claimed = sys.argv[1:]
    json.dump(build(claimed), open("/verif/MANIFEST.json", "w"), indent=1)
