"""Single-thread cooperative simulator: an operation history is a list of
JSON op records; the library's lazy iterators are the tasks, suspended at
`yield` and resumed whenever an op of the history says so.  The executor
tolerates every sub-list of a history (an op whose subject does not exist is a
no-op), which is what makes ddmin and replay trivial."""
from . import core


class LiveIter:
    __slots__ = ("iid", "it", "items", "meta", "exhausted", "closed", "error", "steps_taken")

    def __init__(self, iid, it, meta):
        self.iid = iid
        self.it = it
        self.items = []
        self.meta = meta
        self.exhausted = False
        self.closed = False
        self.error = None
        self.steps_taken = 0


class Hist:
    """State of one simulated history."""

    def __init__(self, keep_events=400):
        self.log = core.EventLog(keep_events)
        self.out = core.Outcome()
        self.iters = {}
        self.violations = []
        self.op_index = -1

    # -- violations ------------------------------------------------------------
    def violate(self, kind, key, detail):
        self.violations.append(core.Violation(kind, key, f"op #{self.op_index}: {detail}"))

    def finish(self):
        self.out.digest = self.log.digest()
        if self.violations:
            self.out.violation = self.violations[0]
        self.out.steps = self.log.count
        return self.out

    # -- iterator tasks ----------------------------------------------------------
    def new_iter(self, iid, make, meta, conv=None):
        """make() returns the library iterator; creation itself may raise."""
        try:
            it = make()
        except Exception as exc:  # pylint: disable=broad-except
            li = LiveIter(iid, None, meta)
            li.error = (type(exc).__name__, str(exc)[:200])
            li.exhausted = True
            self.iters[iid] = li
            self.log.add("iter_new_exc", iid, li.error[0])
            return li
        li = LiveIter(iid, iter(it), meta)
        li.meta["conv"] = conv
        self.iters[iid] = li
        self.log.add("iter_new", iid)
        return li

    def step(self, iid, k):
        """Advance iterator iid by up to k items.  Returns (live iterator or
        None, list of new plain items)."""
        li = self.iters.get(iid)
        if li is None or li.exhausted or li.closed:
            return None, []
        conv = li.meta.get("conv") or (lambda x: x)
        new = []
        for _ in range(k):
            try:
                item = next(li.it)
            except StopIteration:
                li.exhausted = True
                break
            except Exception as exc:  # pylint: disable=broad-except
                li.error = (type(exc).__name__, str(exc)[:200])
                li.exhausted = True
                break
            new.append(conv(item))
        li.items.extend(new)
        li.steps_taken += 1
        self.log.add("iter_step", iid, core.canon(new), li.exhausted)
        return li, new

    def close(self, iid):
        li = self.iters.get(iid)
        if li is None or li.closed or li.it is None:
            return None
        li.closed = True
        try:
            close = getattr(li.it, "close", None)
            if close is not None:
                close()
        except Exception as exc:  # pylint: disable=broad-except
            li.error = (type(exc).__name__, str(exc)[:200])
        self.log.add("iter_close", iid)
        return li

    def abandon(self, iid):
        li = self.iters.pop(iid, None)
        if li is not None:
            li.it = None
            self.log.add("iter_abandon", iid)
        return li


class SimInterrupt(BaseException):
    """An asynchronous interruption of a library call (Ctrl-C, a signal handler
    raising, MemoryError, RecursionError ...) at a point chosen by the seed."""


def run_interruptible(fn, at, prefixes):
    """Run fn(); raise SimInterrupt inside it at the `at`-th executed line of
    code living under one of `prefixes` (line events of sys.settrace: the
    interruption point is a deterministic function of `at`).  Returns
    ("ok", result, lines) or ("interrupted", None, at).  Process-wide state the
    call had modified so far stays as it is - that is the fault."""
    import sys  # pylint: disable=import-outside-toplevel

    count = [0]
    fired = [False]
    prefixes = tuple(prefixes)

    import linecache  # pylint: disable=import-outside-toplevel

    def local(frame, event, _arg):
        if event == "line":
            count[0] += 1
            if count[0] >= at and not fired[0]:
                # Not on a `with` line: the line event of a with statement also fires when
                # the block is left, just before __exit__ is called; an exception injected
                # there would skip __exit__ (a lock would stay held), which says something
                # about Python's with statement, not about the library.
                text = linecache.getline(frame.f_code.co_filename, frame.f_lineno).lstrip()
                if not text.startswith(("with ", "async with ")):
                    fired[0] = True
                    raise SimInterrupt()
        return local

    def glob(frame, event, _arg):
        if event == "call" and frame.f_code.co_filename.startswith(prefixes):
            return local
        return None

    old = sys.gettrace()
    sys.settrace(glob)
    try:
        res = fn()
        return ("ok", res, count[0])
    except SimInterrupt:
        return ("interrupted", None, at)
    finally:
        sys.settrace(old)
