#!/venv/bin/python
"""Re-runs the quick checks against every change kept under seeded/ (must be detected:
exit 1 with a VIOLATION line) and every refactoring under benign/ (must stay silent: exit 0),
each applied to a scratch copy of the tree under test (outside /repo and /verif, removed
afterwards).

usage: selftest/seeded_regression.py [--only SUBSTR] [--seed N] [--repo /repo] [--benign-only|--seeded-only]
"""
import argparse
import glob
import json
import os
import shutil
import subprocess
import sys
import tempfile
import time

HERE = os.path.dirname(os.path.abspath(__file__))
VERIF = os.path.dirname(HERE)


def run_one(kind, d, repo, seed):
    mid = os.path.basename(d.rstrip("/"))
    with open(os.path.join(d, "meta.json")) as f:
        meta = json.load(f)
    prop = meta["property"]
    conf = meta.get("confirmed_by_me", {})
    check_prop = conf.get("check_detected_by") or prop
    expect_detect = kind == "seeded" and (conf.get("check_detected") or conf.get("check_detected_by"))
    scratch = tempfile.mkdtemp(prefix="verif-seeded-", dir=os.environ.get("TMPDIR", "/tmp"))
    try:
        shutil.copytree(os.path.join(repo, "permuta"), os.path.join(scratch, "permuta"), ignore=shutil.ignore_patterns("__pycache__"))
        p = subprocess.run(["patch", "-p1", "-s", "-i", os.path.join(d, "patch.diff")], cwd=scratch, capture_output=True, text=True, check=False)
        if p.returncode != 0:
            return mid, check_prop, "patch does not apply", False, 0.0
        env = dict(os.environ, VERIF_EVIDENCE_DIR=os.path.join(scratch, "ev"), VERIF_REPLAY_DIR=os.path.join(scratch, "rp"))
        t0 = time.time()
        proc = subprocess.run([os.path.join(VERIF, "check"), check_prop, "--repo", scratch, "--seed", str(seed)],
                              capture_output=True, text=True, env=env, timeout=3600, check=False)
        wall = time.time() - t0
        viol = any(ln.startswith("VIOLATION") for ln in proc.stdout.splitlines())
        if kind == "benign":
            ok = proc.returncode == 0 and not viol
            what = "silent" if ok else f"exit {proc.returncode}"
        elif expect_detect:
            ok = proc.returncode == 1 and viol
            what = "detected" if ok else f"exit {proc.returncode}"
        else:
            ok = proc.returncode == 0 and not viol  # recorded as outside the quantifier: must not alarm either
            what = "silent (outside the quantifier)" if ok else f"exit {proc.returncode}"
        return mid, check_prop, what, ok, wall
    finally:
        shutil.rmtree(scratch, ignore_errors=True)


def main():
    ap = argparse.ArgumentParser()
    ap.add_argument("--only", default="")
    ap.add_argument("--seed", type=int, default=0)
    ap.add_argument("--repo", default="/repo")
    ap.add_argument("--benign-only", action="store_true")
    ap.add_argument("--seeded-only", action="store_true")
    args = ap.parse_args()
    todo = []
    if not args.benign_only:
        todo += [("seeded", d) for d in sorted(glob.glob(os.path.join(VERIF, "seeded", "*/")))]
    if not args.seeded_only:
        todo += [("benign", d) for d in sorted(glob.glob(os.path.join(VERIF, "benign", "*/")))]
    bad = 0
    for kind, d in todo:
        if args.only and args.only not in d:
            continue
        mid, prop, what, ok, wall = run_one(kind, d, args.repo, args.seed)
        bad += not ok
        print(f"{'ok  ' if ok else 'FAIL'} {kind:6s} {prop} {mid}: {what} ({wall:.0f}s)", flush=True)
    print(f"{len(todo) - bad} as expected, {bad} not")
    return 1 if bad else 0


if __name__ == "__main__":
    sys.exit(main())
