"""Shared plumbing of the simulator: seeds, event log, outcomes, violations,
known findings, loading permuta from the tree under test.

One integer decides everything: run i of property P under batch seed S uses
seed_i = mix(S, P, i) and a single random.Random(seed_i).  Logging never draws
from a PRNG and never reads a clock.
"""
import hashlib
import importlib
import json
import os
import sys

VERIF_DIR = os.path.dirname(os.path.dirname(os.path.abspath(__file__)))
MASK = (1 << 64) - 1


def splitmix64(x):
    x = (x + 0x9E3779B97F4A7C15) & MASK
    z = x
    z = ((z ^ (z >> 30)) * 0xBF58476D1CE4E5B9) & MASK
    z = ((z ^ (z >> 27)) * 0x94D049BB133111EB) & MASK
    return z ^ (z >> 31)


def derive_seed(batch_seed, prop, index):
    """seed of run `index` of property `prop` in the batch `batch_seed`."""
    x = splitmix64(batch_seed & MASK)
    for ch in prop.encode():
        x = splitmix64(x ^ ch)
    return splitmix64(x ^ (index & MASK))


class HarnessError(Exception):
    """Something is wrong with /verif code or its assumptions: never a
    violation, never exit 0."""


class EventLog:
    """Append-only event log with a running digest.  Keeps the first `keep`
    events verbatim for samples / replay files."""

    def __init__(self, keep=400):
        self._h = hashlib.sha256()
        self.keep = keep
        self.head = []
        self.count = 0

    def add(self, *event):
        self.count += 1
        text = repr(event)
        self._h.update(text.encode())
        self._h.update(b"\n")
        if len(self.head) < self.keep:
            self.head.append(text)

    def digest(self):
        return self._h.hexdigest()[:24]


class Violation:
    """A structured violation signature.

    kind: short class name, e.g. wrong_count, exception, deadlock
    key: dict of small JSON values identifying the violation class (used for
         same-class minimisation and for known-finding matching)
    detail: free text for the human
    """

    def __init__(self, kind, key=None, detail=""):
        self.kind = kind
        self.key = dict(key or {})
        self.detail = detail

    def to_json(self):
        return {"kind": self.kind, "key": self.key, "detail": self.detail}

    @staticmethod
    def from_json(d):
        if d is None:
            return None
        return Violation(d["kind"], d.get("key"), d.get("detail", ""))

    def same_class(self, other):
        return (
            other is not None
            and self.kind == other.kind
            and self.key == other.key
        )

    def __repr__(self):
        return f"Violation({self.kind}, {self.key}, {self.detail!r})"


class Outcome:
    """Result of executing one case."""

    def __init__(self):
        self.violation = None  # Violation or None
        self.digest = ""
        self.abstraction = ""
        self.nontrivial = False
        self.faults = {}  # kind -> times actually fired
        self.probes = {}  # name -> times hit
        self.steps = 0  # simulated steps (yield points / ops / io calls)
        self.extra = {}  # free-form, e.g. recorded schedule

    def fault(self, kind, n=1):
        self.faults[kind] = self.faults.get(kind, 0) + n

    def probe(self, name, n=1):
        self.probes[name] = self.probes.get(name, 0) + n

    def to_json(self):
        return {
            "violation": self.violation.to_json() if self.violation else None,
            "digest": self.digest,
            "abstraction": self.abstraction,
            "nontrivial": self.nontrivial,
            "faults": self.faults,
            "probes": self.probes,
            "steps": self.steps,
            "extra": self.extra,
        }


# --- known findings ---------------------------------------------------------


def load_known_findings(prop):
    path = os.path.join(VERIF_DIR, "known_findings.json")
    if not os.path.exists(path):
        return []
    with open(path) as f:
        data = json.load(f)
    return [e for e in data.get("findings", []) if e.get("property") == prop]


def finding_matches(entry, violation):
    """entry: {"property", "kind", "key": {...}, "what", ...}.  A violation
    matches when its kind is the entry's kind and every key/value of the entry
    key is present in the violation key."""
    if violation is None:
        return False
    kinds = entry.get("kinds") or [entry.get("kind")]
    if violation.kind not in kinds:
        return False
    for k, v in entry.get("key", {}).items():
        if violation.key.get(k) != v:
            return False
    return True


# --- loading the tree under test -------------------------------------------

_REPO = None


def setup_repo(repo):
    """Make `import permuta` resolve to <repo>/permuta and verify it."""
    global _REPO
    repo = os.path.abspath(repo)
    if sys.path[0] != repo:
        sys.path.insert(0, repo)
    sys.dont_write_bytecode = True
    for name in list(sys.modules):
        if name == "permuta" or name.startswith("permuta."):
            raise HarnessError("permuta imported before setup_repo")
    permuta = importlib.import_module("permuta")
    got = os.path.dirname(os.path.dirname(os.path.abspath(permuta.__file__)))
    if os.path.realpath(got) != os.path.realpath(repo):
        raise HarnessError(f"permuta imported from {got}, expected {repo}")
    _REPO = repo
    return permuta


def repo_dir():
    return _REPO


def canon(obj):
    """Canonical JSON-able form of results (tuples -> lists, sets sorted)."""
    if isinstance(obj, (set, frozenset)):
        return sorted(canon(x) for x in obj)
    if isinstance(obj, (list, tuple)):
        return [canon(x) for x in obj]
    if isinstance(obj, dict):
        return {str(k): canon(v) for k, v in sorted(obj.items(), key=lambda kv: str(kv[0]))}
    return obj
