"""(length, lexicographic) order of permutations, ranking and unranking, written
independently of permuta and of itertools.permutations."""


def lex_perms(n):
    """All permutations of 0..n-1 in lexicographic order (plain recursion)."""
    def rec(prefix, rest):
        if not rest:
            yield tuple(prefix)
            return
        for i, v in enumerate(rest):
            yield from rec(prefix + [v], rest[:i] + rest[i + 1:])
    yield from rec([], list(range(n)))


def factorial(n):
    res = 1
    for i in range(2, n + 1):
        res *= i
    return res


def lex_index(p):
    """Position of p among the permutations of its length (Lehmer code)."""
    n = len(p)
    idx = 0
    for i in range(n):
        smaller = sum(1 for j in range(i + 1, n) if p[j] < p[i])
        idx += smaller * factorial(n - 1 - i)
    return idx


def rank(p):
    """Position of p in the (length, lexicographic) order of all permutations."""
    return sum(factorial(k) for k in range(len(p))) + lex_index(p)


def unrank_in_length(idx, n):
    avail = list(range(n))
    out = []
    for i in range(n):
        f = factorial(n - 1 - i)
        out.append(avail.pop(idx // f))
        idx %= f
    return tuple(out)


def unrank(r):
    n = 0
    while r >= factorial(n):
        r -= factorial(n)
        n += 1
    return unrank_in_length(r, n)


def first(k):
    out = []
    n = 0
    while len(out) < k:
        for p in lex_perms(n):
            if len(out) == k:
                break
            out.append(p)
        n += 1
    return out


def mesh_cells(n, number):
    """Shading with rank `number` for a pattern of length n: bit x*(n+1)+y <-> cell (x, y)."""
    cells = set()
    i = 0
    while number >> i:
        if (number >> i) & 1:
            cells.add((i // (n + 1), i % (n + 1)))
        i += 1
    return frozenset(cells)


def mesh_rank(n, cells):
    return sum(1 << (x * (n + 1) + y) for x, y in cells)


def self_check():
    from itertools import permutations
    for n in range(6):
        ref = list(lex_perms(n))
        assert ref == sorted(ref) and len(ref) == factorial(n) and len(set(ref)) == len(ref)
        assert ref == list(permutations(range(n)))
        for i, p in enumerate(ref):
            assert lex_index(p) == i and unrank_in_length(i, n) == p
    assert [rank(p) for p in [(), (0,), (0, 1), (1, 0), (0, 1, 2)]] == [0, 1, 2, 3, 4]
    for r in range(200):
        assert rank(unrank(r)) == r
    assert first(5) == [(), (0,), (0, 1), (1, 0), (0, 1, 2)]
    assert mesh_cells(3, 386) == frozenset({(0, 1), (1, 3), (2, 0)})
    assert mesh_rank(3, {(0, 1), (1, 3), (2, 0)}) == 386
    return True
