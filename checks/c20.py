"""C20 -- persisted and shipped BiSC data and stored automata are faithful.

System under simulation: the real write_bisc_files / write_json_to_file /
read_bisc_file / from_json / create_bisc_input and the real
PinWords.store_dfa_for_perm / load_dfa_for_perm / make_dfa_for_basis_from_db /
create_dfa_db_for_length with the real automata-lib; the file system is simfs
(sim/simfs.py) put behind the module globals `open`, `Path`, `os` of
permuta.bisc.bisc and permuta.permutils.pin_words.  A fault-free configuration
runs the same histories against a real temporary directory and must observe
the same thing (this validates the stub).

Three parts:
  * shipped data: complete enumeration (not sampled) of every shipped file
    against independent definitions of the named property;
  * fault-free histories (strict oracle);
  * the same histories with injected faults: for short histories *every*
    single-fault placement (each I/O call x each applicable fault kind x six
    write offsets), for longer ones seeded placements of up to 3 faults, plus
    power-loss restarts; relaxed oracle "old, new or reported invalid, never
    other data".
"""
import contextlib
import copy
import glob
import io
import os
import re
import shutil
import sys
import tempfile
from itertools import permutations

from ref import dfa as RD
from ref import families as RF
from ref import patterns as RP
from sim import core, histsim, simfs

from . import common

PROPERTY = "C20"
LEVEL = "fault_enumeration"
RULE = (
    "shipped data: every file x every length x every permutation (complete). Histories: each seed -> 3-12 ops "
    "(write / rewrite of BiSC data names, reads incl. never-written names, store / load / union-from-db / "
    "create-db of automata, restart, power loss, chdir) run fault-free on simfs (strict oracle), for a sample "
    "also on a real temporary directory, and then under faults: histories of <= 6 ops get every single-fault "
    "placement (I/O call index x applicable kinds x write offsets: 0, half, all-but-one, and 2 / 3 / 4 characters), longer ones seeded placements of 1-3 "
    "faults; non-trivial = a fault fired inside an I/O call, or a name was written twice, or a power loss "
    "hit an unsynced file; distinct = distinct event-log digest (ops, observations, faults fired)"
)
ABSTRACTION = "sequence of (op kind, fault kind fired at which I/O call kind)"
COMPONENTS = {
    "real": ["permuta.bisc.bisc write_bisc_files / write_json_to_file / read_bisc_file / from_json / create_bisc_input",
             "PinWords.store_dfa_for_perm / load_dfa_for_perm / make_dfa_for_basis_from_db / create_dfa_db_for_length",
             "automata-lib DFA repr / eval / union", "json"],
    "simulated": ["file system (simfs: open, pathlib.Path, os of the two modules)", "process crash / restart / power loss",
                  "make_dfa_for_perm answered from a table precomputed with the real function (pure function, speed only)"],
    "validated_against_real": ["simfs vs a real temporary directory on sampled fault-free histories"],
}
ASSUMPTIONS = [
    "a dataset read back as {} (with the library's 'File is invalid' message) or an exception counts as 'reported invalid'",
    "byte flips that keep a file well formed are not injected: the code claims no integrity mechanism and the property does not ask for one",
    "reference language equivalence = product-automaton BFS (ref/dfa.py); fresh automaton = PinWords.make_dfa_for_perm of the tree under test",
    "shipped data are judged against ref/families.py (pinned by OEIS sequences) with the library's documented conventions for n <= 2",
]
EXPECTED_PROBES = ["guided_interrupt", "name_written_twice", "read_never_written", "torn_write", "crash_fired", "error_fired", "power_loss_dirty",
                   "load_after_restart", "load_absent_stores", "chdir", "realfs_run", "from_db_union", "concurrent_tasks", "interrupted_call", "real_make_dfa"]

_STATE = {"prepared": False, "dfa_memo": {}, "orig": {}}
PREDS = {
    "avoid_021": lambda p: not RP.contains(p, (0, 2, 1)),
    "avoid_10": lambda p: not RP.contains(p, (1, 0)),
    # Wilf-equivalent / symmetric properties: different data of exactly the same size
    "avoid_120": lambda p: not RP.contains(p, (1, 2, 0)),
    "avoid_102": lambda p: not RP.contains(p, (1, 0, 2)),
    "avoid_01": lambda p: not RP.contains(p, (0, 1)),
    "last_is_max": lambda p: len(p) > 0 and p[-1] == len(p) - 1,
    "first_is_min": lambda p: len(p) > 0 and p[0] == 0,
    "even_len": lambda p: len(p) % 2 == 0,
    "first_is_max": lambda p: len(p) > 0 and p[0] == len(p) - 1,
    "inv_mod3": lambda p: sum(1 for i in range(len(p)) for j in range(i + 1, len(p)) if p[i] > p[j]) % 3 == 0,
    "mix1": lambda p: sum(v * (i + 1) for i, v in enumerate(p)) % 3 == 1,
    # properties that answer by truthiness (a count, None for "no"), as user functions do
    "truthy_inversions": lambda p: sum(1 for i in range(len(p)) for j in range(i + 1, len(p)) if p[i] > p[j]),
    "true_or_none": lambda p: True if (len(p) and p[0] == 0) else None,
    "all": lambda p: True,
    "none": lambda p: False,
}


# Histories that once exposed a defect (fixed since); executed in every batch.
REGRESSION_CASES = [
    # D9: a database file cut down to its first three characters ("DFA") made the loader
    # return the DFA class instead of reporting the file as malformed
    {"kind": "history", "fs": "sim", "faults": [],
     "ops": [{"op": "from_db", "basis": [[], [], [0]], "cont": "list"},
             {"op": "powerloss", "choices": [["truncated", 0.02], ["kept", 0.74], ["kept", 0.67], ["old", 0.97]]},
             {"op": "load", "perm": []}]},
    {"kind": "history", "fs": "sim", "faults": [{"io": 4, "kind": "crash", "arg": 3}],
     "ops": [{"op": "store", "perm": [0, 1], "with_dfa": False}, {"op": "load", "perm": [0, 1]}]},
]


def plan(tier):
    if tier == "quick":
        return {"runs": 4000, "chunk": 25, "wall_cap": 240, "chunk_timeout": 900}
    return {"runs": 40000, "chunk": 40, "wall_cap": 900, "chunk_timeout": 1800}


def _modules():
    import permuta.bisc.bisc  # noqa: F401  pylint: disable=import-outside-toplevel,unused-import
    import permuta.permutils.pin_words  # noqa: F401  pylint: disable=import-outside-toplevel,unused-import

    return sys.modules["permuta.bisc.bisc"], sys.modules["permuta.permutils.pin_words"]


def prepare(tier):
    if _STATE["prepared"]:
        return
    RF.self_check()
    common.isolate_locks()
    mb, mp = _modules()
    pin = mp.PinWords
    pm = common.lazy_permuta()
    # the fresh computation, tabulated once with the real function
    real = pin.make_dfa_for_perm
    memo = _STATE["dfa_memo"]
    maxlen = 3 if tier == "quick" else 4

    def compute_table():
        # automata-lib automata cannot be unpickled (immutable): ship their five parts
        res = {}
        for n in range(maxlen + 1):
            for p in permutations(range(n)):
                d = _canonical_dfa(real(pm.Perm(p)))
                res[p] = (set(d.states), set(d.input_symbols), {q: dict(t) for q, t in d.transitions.items()},
                          d.initial_state, set(d.final_states), bool(getattr(d, "allow_partial", False)))
        return res

    # in a forked child: whatever tables the computation fills inside the library must not be
    # pre-filled in the process the histories are forked from
    from sim import driver  # pylint: disable=import-outside-toplevel

    status, table = driver.in_forked_child(compute_table)
    if status != "ok":
        raise core.HarnessError("tabulating the fresh automata failed:\n" + str(table))
    from automata.fa.dfa import DFA  # pylint: disable=import-outside-toplevel

    for p, (states, symbols, trans, init, finals, partial) in table.items():
        memo[p] = DFA(states=states, input_symbols=symbols, transitions=trans, initial_state=init,
                      final_states=finals, allow_partial=partial)
    _STATE["real_make_dfa"] = real
    # what the library keeps process-wide, while it is still as a fresh process has it
    _STATE["pristine"] = histsim.snapshot_process_state(histsim.permuta_modules())

    def memo_make(cls, perm):  # pylint: disable=unused-argument
        key = tuple(perm)
        if key not in memo:
            memo[key] = _canonical_dfa(real(perm))
        return memo[key]

    _STATE["orig"]["make_dfa_for_perm"] = pin.__dict__.get("make_dfa_for_perm")
    _STATE["stub"] = classmethod(memo_make)
    pin.make_dfa_for_perm = _STATE["stub"]
    _STATE["prepared"] = True


def _canonical_dfa(d):
    """The same automaton with its states renumbered in breadth-first order from the initial
    state (symbols in sorted order).  automata-lib numbers the states of a determinised /
    minimised automaton in an order that changes from process to process (sets of objects
    hashed by address), so the text the library stores for an automaton - its length, where a
    torn write cuts it - would otherwise not be a function of the case.  Language, type and
    everything the library does while computing it are untouched."""
    try:
        from automata.fa.dfa import DFA  # pylint: disable=import-outside-toplevel

        if not isinstance(d, DFA):
            return d
        symbols = sorted(d.input_symbols)
        order = {d.initial_state: 0}
        queue = [d.initial_state]
        while queue:
            q = queue.pop(0)
            for a in symbols:
                t = d.transitions.get(q, {}).get(a)
                if t is not None and t not in order:
                    order[t] = len(order)
                    queue.append(t)
        trans = {}
        for q, i in sorted(order.items(), key=lambda kv: kv[1]):
            trans[i] = {a: order[d.transitions[q][a]] for a in symbols if a in d.transitions.get(q, {})}
        return DFA(states=set(range(len(order))), input_symbols=set(d.input_symbols), transitions=trans,
                   initial_state=0, final_states={order[q] for q in d.final_states if q in order},
                   allow_partial=bool(getattr(d, "allow_partial", False)) or any(len(t) < len(symbols) for t in trans.values()))
    except Exception:  # pylint: disable=broad-except
        return d


def _use_real_make_dfa(flag):
    """Most histories answer make_dfa_for_perm from the table (speed); some run the real
    function, so that what it does to process-wide tables is part of the simulation."""
    _mb, mp = _modules()
    pin = mp.PinWords
    if flag and _STATE["orig"].get("make_dfa_for_perm") is not None:
        orig = _STATE["orig"]["make_dfa_for_perm"]

        def real_canonical(cls, perm):
            return _canonical_dfa(orig.__get__(None, cls)(perm))

        pin.make_dfa_for_perm = classmethod(real_canonical)
    else:
        pin.make_dfa_for_perm = _STATE["stub"]


# --- shipped data (complete enumeration) -------------------------------------------------

_FILE_CACHE = {}


def _resources_dir():
    return os.path.join(core.repo_dir(), "permuta", "resources", "bisc")


def _read_shipped(stem):
    """Through the real reader, on the real file system."""
    if stem not in _FILE_CACHE:
        mb, _ = _modules()
        buf = io.StringIO()
        with contextlib.redirect_stdout(buf):
            try:
                data = mb.read_bisc_file(os.path.join(_resources_dir(), stem))
            except Exception as exc:  # pylint: disable=broad-except
                data = {}
                print(f"read_bisc_file raised {type(exc).__name__}: {exc}")
        _FILE_CACHE.clear()
        _FILE_CACHE[stem] = (data, buf.getvalue())
    return _FILE_CACHE[stem]


def shipped_files():
    res = []
    for path in sorted(glob.glob(os.path.join(_resources_dir(), "*.json"))):
        stem = os.path.basename(path)[:-5]
        m = re.match(r"^(.*)_(good|bad)_len(\d+)$", stem)
        if m:
            res.append((stem, m.group(1), m.group(2), int(m.group(3))))
    return res


def check_shipped(stem, family, kind, maxlen, n, first=None):
    """Level n of one shipped file (optionally only the permutations starting
    with `first`).  Returns (pairs checked, None | (kind, key, detail))."""
    data, _msg = _read_shipped(stem)
    key = {"file": stem + ".json"}
    if not isinstance(data, dict) or not data:
        return 0, ("shipped_invalid", key, f"{stem}.json is reported invalid / empty by read_bisc_file (not the partition)")
    if sorted(data.keys()) != list(range(maxlen + 1)):
        return 0, ("shipped_wrong", dict(key, what="keys"), f"{stem}.json has keys {sorted(data.keys())[:12]}, expected 0..{maxlen}")
    pred = RF.FAMILIES.get(family)
    if pred is None:
        return 0, None
    want_good = kind == "good"
    got = [tuple(p) for p in data[n]]
    if first is not None:
        got = [p for p in got if p and p[0] == first]
    gset = set(got)
    if len(gset) != len(got):
        return 0, ("shipped_wrong", dict(key, what="duplicate"), f"{stem}.json level {n} lists a permutation twice")
    pairs = 0
    if first is None:
        domain = permutations(range(n))
    else:
        rest = [v for v in range(n) if v != first]
        domain = ((first,) + q for q in permutations(rest))
    expected = 0
    for p in domain:
        pairs += 1
        if pred(p) == want_good:
            expected += 1
            if p not in gset:
                return pairs, ("shipped_wrong", dict(key, what="missing"), f"{stem}.json level {n}: {p} {'satisfies' if want_good else 'violates'} {family} but is not listed")
    if expected != len(gset):
        extra = [p for p in got if not RP.is_perm(p) or len(p) != n or pred(p) != want_good][:2]
        return pairs, ("shipped_wrong", dict(key, what="extra"), f"{stem}.json level {n} lists {len(gset)} entries, {expected} expected; e.g. {extra}")
    return pairs, None


def _shipped_reread(stem):
    """A caller that edits the dictionaries it was given must not change what the next
    caller reads from the same shipped file."""
    mb, _ = _modules()
    path = os.path.join(_resources_dir(), stem)
    with contextlib.redirect_stdout(io.StringIO()):
        first = mb.read_bisc_file(path)
        if not isinstance(first, dict) or not first:
            return None
        snapshot = {k: [tuple(p) for p in v] for k, v in first.items()}
        for lst in first.values():
            if isinstance(lst, list):
                del lst[len(lst) // 2:]
        first.pop(max(first), None)
        second = mb.read_bisc_file(path)
    if not isinstance(second, dict) or {k: [tuple(p) for p in v] for k, v in second.items()} != snapshot:
        return ("shipped_wrong", {"file": stem + ".json", "what": "reread_differs"},
                f"{stem}.json: a second read_bisc_file after the first result was edited in place returns different data")
    return None


def _shipped_task(arg):
    stem, family, kind, maxlen, levels, first = arg
    pairs = 0
    if first is None and levels and levels[0] == 0 and os.path.getsize(os.path.join(_resources_dir(), stem + ".json")) < 400_000:
        try:
            bad = _shipped_reread(stem)
        except Exception as exc:  # pylint: disable=broad-except
            bad = ("shipped_wrong", {"file": stem + ".json", "what": "reread_exception"}, f"{type(exc).__name__}: {exc}")
        _FILE_CACHE.clear()
        if bad is not None:
            return 0, arg, "reread", bad
    for n in levels:
        cnt, bad = check_shipped(stem, family, kind, maxlen, n, first)
        pairs += cnt
        if bad is not None:
            return pairs, arg, n, bad
    return pairs, arg, None, None


def preflight(tier, batch_seed, workers):  # pylint: disable=unused-argument
    from sim import driver  # pylint: disable=import-outside-toplevel

    files = shipped_files()
    tasks = []
    for stem, family, kind, maxlen in files:
        tasks.append((stem, family, kind, maxlen, list(range(0, min(maxlen, 7) + 1)), None))
        for n in range(8, maxlen + 1):
            if n <= 8:
                tasks.append((stem, family, kind, maxlen, [n], None))
            else:
                for first in range(n):
                    tasks.append((stem, family, kind, maxlen, [n], first))
    tasks.sort(key=lambda t: (-(t[4][-1]), t[0], -1 if t[5] is None else t[5]))
    res = driver.fork_map(_shipped_task, tasks, workers)
    agg = driver.empty_agg()
    pairs = 0
    seen = set()
    for cnt, arg, n, bad in res:
        pairs += cnt
        if bad is not None and (arg[0], bad[0]) not in seen:
            seen.add((arg[0], bad[0]))
            case = {"kind": "shipped", "file": arg[0], "family": arg[1], "which": arg[2], "maxlen": arg[3], "n": n, "first": arg[5]}
            agg["violations"].append([-1, 0, case, core.Violation(*bad).to_json(), -1])
    agg["evaluations"] = len(tasks)
    for case in REGRESSION_CASES:
        out = execute(copy.deepcopy(case))
        agg["evaluations"] += 1
        if out.violation is not None:
            agg["violations"].append([-1, 0, case, out.violation.to_json(), -1])
    # disjointness of good and bad at every level follows from each being exactly
    # the permutations that do / do not satisfy the property
    return {"agg": agg, "coverage": {"shipped_data": {
        "files": len(files), "file_level_slices": len(tasks), "permutation_property_pairs_checked": pairs, "exhaustive": True,
        "families": sorted({f[1] for f in files}),
        "note": "every shipped file read through the real read_bisc_file; every level 0..N compared with the independent definition on all n! permutations"}}}


# --- histories ----------------------------------------------------------------------------


def gen_ops(rng, tier):
    maxn = 3 if tier == "quick" else 4
    maxdfa = 3 if tier == "quick" else 4
    if rng.random() < 0.04:
        maxn, maxdfa = 4, 4  # swarm: a few histories on the next size up
    names = ["a", "b", "prop_x"][: rng.choice([1, 2, 2, 3])]
    perms = [common.rand_perm(rng, rng.choice([0, 1, 2, 2, 3, 3, 3, 4][: 5 + maxdfa])) for _ in range(rng.choice([1, 2, 3]))]
    nops = rng.randint(3, 12) if rng.random() >= 0.03 else rng.randint(25, 60)  # swarm: a few long histories
    ops = []
    written = []
    if rng.random() < 0.12:
        # scenario: one name in two directories, data sets of equal size
        fam = rng.choice([["avoid_021", "avoid_120", "avoid_102"], ["avoid_10", "avoid_01"], ["first_is_max", "last_is_max", "first_is_min"]])
        name, n = rng.choice(names), rng.randint(2, maxn)
        d1, d2 = rng.sample(["/", "/d1", "/d2", "/d1/sub"], 2)
        seq = [{"op": "chdir", "dir": d1}, {"op": "write", "name": name, "n": n, "pred": rng.choice(fam)},
               {"op": "chdir", "dir": d2}, {"op": "write", "name": name, "n": n, "pred": rng.choice(fam)},
               {"op": "chdir", "dir": d1}, {"op": "write", "name": name, "n": n, "pred": rng.choice(fam)},
               {"op": "read", "name": name, "n": n, "which": rng.choice(["good", "bad"])},
               {"op": "chdir", "dir": d2}, {"op": "read", "name": name, "n": n, "which": rng.choice(["good", "bad"])}]
        if rng.random() < 0.5:
            seq.insert(rng.randrange(len(seq)), {"op": "read", "name": name, "n": n, "which": "good"})
        ops.extend(seq)
        written.append((name, n))
        nops = max(0, nops - 6)
    for _ in range(nops):
        r = rng.random()
        if r < 0.25:
            name = rng.choice(names)
            n = rng.randint(0, maxn)
            if written and rng.random() < 0.5:
                name, n = rng.choice(written)  # the same name again
            ops.append({"op": "write", "name": name, "n": n, "pred": rng.choice(sorted(PREDS))})
            written.append((name, n))
        elif r < 0.5:
            if written and rng.random() < 0.8:
                name, n = rng.choice(written)
            else:
                name, n = rng.choice(names + ["never"]), rng.randint(0, maxn)
            ops.append({"op": "read", "name": name, "n": n, "which": rng.choice(["good", "bad"])})
        elif r < 0.62:
            ops.append({"op": "store", "perm": rng.choice(perms), "with_dfa": rng.random() < 0.2})
        elif r < 0.78:
            ops.append({"op": "load", "perm": rng.choice(perms)})
        elif r < 0.84:
            k = rng.choice([1, 2, 2, 3])
            ops.append({"op": "from_db", "basis": [rng.choice(perms) for _ in range(k)],
                        "cont": rng.choice(["list", "list", "tuple", "set", "gen", "iter", "map"]),
                        "via": rng.choice(["direct", "direct", "wrapper"])})
        elif r < 0.87:
            ops.append({"op": "create_db", "n": rng.choice([0, 1, 2, 2, 3][: 2 + maxdfa])})
        elif r < 0.93:
            ops.append({"op": "restart"})
        elif r < 0.97:
            ops.append({"op": "chdir", "dir": rng.choice(["/", "/d1", "/d1/sub", "/d2"])})
        else:
            ops.append({"op": "powerloss", "choices": [[rng.choice(["kept", "lost", "empty", "truncated", "old"]), round(rng.random(), 2)]
                                                       for _ in range(4)]})
    return ops


def gen_concurrent(rng, tier):
    """Two or three writer / reader tasks on one directory, interleaved at
    I/O-call granularity (threads of one process: they share the loader memo)."""
    maxdfa = 3 if tier == "quick" else 4
    n = rng.choice([1, 2, 2, 3, 3][: 2 + maxdfa])
    perms = [common.rand_perm(rng, n) for _ in range(rng.choice([2, 2, 3]))]
    if rng.random() < 0.3:
        perms.append(common.rand_perm(rng, rng.choice([1, 2, 3])))
    names = ["a", "b"][: rng.choice([1, 1, 2])]
    threads = []
    for _ in range(rng.choice([2, 2, 3])):
        ops = []
        for _ in range(rng.randint(1, 4)):
            r = rng.random()
            if r < 0.3:
                ops.append({"op": "store", "perm": rng.choice(perms), "with_dfa": False})
            elif r < 0.55:
                ops.append({"op": "load", "perm": rng.choice(perms)})
            elif r < 0.65:
                ops.append({"op": "from_db", "basis": [rng.choice(perms) for _ in range(2)]})
            elif r < 0.7:
                ops.append({"op": "create_db", "n": rng.choice([1, 2, 2, 3][: 1 + maxdfa])})
            elif r < 0.85:
                ops.append({"op": "write", "name": rng.choice(names), "n": rng.randint(0, 2), "pred": rng.choice(sorted(PREDS))})
            else:
                ops.append({"op": "read", "name": rng.choice(names), "n": rng.randint(0, 2), "which": rng.choice(["good", "bad"])})
        threads.append({"ops": ops})
    return {"kind": "concurrent", "fs": "sim", "threads": threads, "perms": perms, "real_dfa": rng.random() < 0.4,
            "schedule": {"mode": "policy", "p": rng.choice([0.1, 0.3, 0.6, 0.9]), "seed": rng.getrandbits(48)}}


def _placements(trace, rng, exhaustive, cap):
    """Single-fault placements for an I/O trace."""
    res = []
    for idx, kind, _path, size, _m in trace:
        if kind == "open":
            res.append([{"io": idx, "kind": "error", "errno": "EACCES"}])
            res.append([{"io": idx, "kind": "crash"}])
        elif kind == "write":
            for frac in (0.0, 0.5, 0.999):
                res.append([{"io": idx, "kind": "error", "errno": "ENOSPC", "frac": frac}])
                res.append([{"io": idx, "kind": "crash", "frac": frac}])
            # a few characters only: the shortest prefixes are the ones most likely to be
            # well-formed on their own ("DFA", "{}")
            for arg in (2, 3, 4):
                res.append([{"io": idx, "kind": "crash", "arg": arg}])
        elif kind in ("close", "fsync", "rename", "unlink"):
            res.append([{"io": idx, "kind": "crash"}])
            if kind != "close":
                res.append([{"io": idx, "kind": "error", "errno": "EIO"}])
        elif kind == "read":
            res.append([{"io": idx, "kind": "error", "errno": "EIO"}])
        elif kind == "mkdir":
            res.append([{"io": idx, "kind": "error", "errno": "EACCES"}])
            res.append([{"io": idx, "kind": "crash"}])
        elif kind == "stat":
            res.append([{"io": idx, "kind": "crash"}])
        del size
    if exhaustive and len(res) <= cap:
        return res, True
    rng.shuffle(res)
    return res[:cap], False


def cases(rng, tier):
    ops = gen_ops(rng, tier)
    base = {"kind": "history", "fs": "sim", "ops": ops, "faults": []}
    yield base
    trace = _STATE.get("last_trace") or []
    base_obs = _STATE.get("last_obs")
    if rng.random() < 0.12:
        # the same history with the real make_dfa_for_perm (not the table) and with calls
        # interrupted part-way: what the library keeps in process-wide tables is now part of it
        ops_i = copy.deepcopy(ops)
        for o in ops_i:
            if o["op"] in ("store", "load", "from_db", "create_db", "write", "read") and rng.random() < 0.3:
                # blind (any executed line) or guided (right after a line that changed
                # process-wide library state, found by a dry run in a forked child)
                o["interrupt"] = int(10 ** rng.uniform(0, 5.6)) if rng.random() < 0.4 else {"guided": round(rng.random(), 3)}
        yield {"kind": "history", "fs": "sim", "ops": ops_i, "faults": [], "real_dfa": True}
    want_real = rng.random() < (0.12 if tier == "quick" else 0.06)
    if want_real and _STATE.get("last_ok", True):
        # (only when the history itself is clean: a violating history is cut short)
        # validation of the stub: the same history (a power loss cannot be staged
        # on a real directory, so without those ops) on simfs and on a real
        # temporary directory must give the same observations
        ops2 = [o for o in ops if o["op"] != "powerloss"]
        if len(ops2) != len(ops):
            yield {"kind": "history", "fs": "sim", "ops": ops2, "faults": []}
            base_obs = _STATE.get("last_obs")
        if _STATE.get("last_ok", True):
            yield {"kind": "history", "fs": "real", "ops": ops2, "faults": [], "expect_obs": base_obs}
    if rng.random() < 0.35:
        yield gen_concurrent(rng, tier)
    short = len(ops) <= 6
    single, _complete = _placements(trace, rng, short, 80 if tier == "quick" else 200)
    if short:
        for plan_ in single:
            yield {"kind": "history", "fs": "sim", "ops": ops, "faults": plan_, "placement": "all_single"}
    else:
        for plan_ in single[: rng.randint(2, 6)]:
            yield {"kind": "history", "fs": "sim", "ops": ops, "faults": plan_, "placement": "sampled_single"}
        if len(trace) >= 3:
            for _ in range(rng.randint(1, 3)):
                k = rng.choice([2, 2, 3])
                picks = [rng.choice(single)[0] for _ in range(k)] if single else []
                picks = {f["io"]: f for f in picks}
                if picks:
                    yield {"kind": "history", "fs": "sim", "ops": ops, "faults": [picks[i] for i in sorted(picks)], "placement": "sampled_multi"}


# --- execution ------------------------------------------------------------------------------


class _RealFS:
    """The real file system under a temporary directory, same surface as the
    part of SimFS the executor uses."""

    def __init__(self):
        self.root = tempfile.mkdtemp(prefix="verif-c20-")
        self.cwd = "/"
        self.fired = []
        self.trace = []
        self.crashed = False
        self.dirty = {}
        self.marker = None
        self.old_cwd = os.getcwd()
        os.chdir(self.root)

    def abspath(self, path):
        import posixpath  # pylint: disable=import-outside-toplevel

        path = str(path)
        if not path.startswith("/"):
            path = posixpath.join(self.cwd, path)
        return posixpath.normpath(path)

    def chdir_mk(self, d):
        real = os.path.join(self.root, d.lstrip("/"))
        os.makedirs(real, exist_ok=True)
        os.chdir(real)
        self.cwd = d

    def restart(self):
        pass

    def close(self):
        os.chdir(self.old_cwd)
        shutil.rmtree(self.root, ignore_errors=True)


def _from_db(pin, arg, via):
    """The union automaton out of the database, directly or through the public wrapper."""
    if via == "wrapper":
        return pin.make_dfa_for_basis(arg, use_db=True)
    return pin.make_dfa_for_basis_from_db(arg)


def _basis_arg(perms, cont):
    if cont == "tuple":
        return tuple(perms)
    if cont == "set":
        return set(perms)
    if cont == "gen":
        return (p for p in perms)
    if cont == "iter":
        return iter(perms)
    if cont == "map":
        return map(lambda p: p, perms)
    return list(perms)


def _fresh(pm, perm):
    """The reference automaton of a permutation: from the table computed once (in a
    separate process) with the real function."""
    key = tuple(perm)
    memo = _STATE["dfa_memo"]
    if key not in memo:
        memo[key] = _STATE["real_make_dfa"](pm.Perm(key))
    return memo[key]


def _plain_dataset(d):
    return {int(k): [tuple(p) for p in v] for k, v in d.items()}


def _dataset_ok_types(d, pm):
    return isinstance(d, dict) and all(isinstance(k, int) and not isinstance(k, bool) for k in d) and all(
        isinstance(v, list) and all(isinstance(p, pm.Perm) for p in v) for v in d.values())


def execute(case):
    if case.get("kind") == "shipped":
        out = core.Outcome()
        log = core.EventLog()
        _FILE_CACHE.clear()
        if case.get("n") == "reread":
            bad = _shipped_reread(case["file"])
            _cnt = 0
        else:
            _cnt, bad = check_shipped(case["file"], case["family"], case["which"], case["maxlen"], case["n"] or 0, case.get("first"))
        log.add("shipped", case["file"], case["n"], bad[0] if bad else None)
        if bad is not None:
            out.violation = core.Violation(*bad)
        out.digest = log.digest()
        return out
    if case.get("kind") == "concurrent":
        return _execute_concurrent(case)
    return _execute_history(case)


def _library_call(mb, pin, pm, op, fresh):
    kind = op["op"]
    if kind == "write":
        return mb.write_bisc_files(op["n"], prop_func(op["pred"]), op["name"])
    if kind == "read":
        return ["v", mb.read_bisc_file(f"{op['name']}_{op['which']}_len{op['n']}")]
    if kind == "store":
        perm = pm.Perm(op["perm"])
        if op.get("with_dfa"):
            pin.store_dfa_for_perm(perm, fresh(op["perm"]))
        else:
            pin.store_dfa_for_perm(perm)
        return ["v", None]
    if kind == "load":
        return ["v", pin.load_dfa_for_perm(pm.Perm(op["perm"]))]
    if kind == "from_db":
        return ["v", _from_db(pin, _basis_arg([pm.Perm(p) for p in op["basis"]], op.get("cont", "list")), op.get("via"))]
    if kind == "create_db":
        pin.create_dfa_db_for_length(op["n"])
        return ["v", None]
    raise ValueError(kind)


def _execute_history(case):
    prepare("quick")
    pm = common.lazy_permuta()
    mb, mp = _modules()
    pin = mp.PinWords
    out = core.Outcome()
    log = core.EventLog()
    violations = []
    real = case.get("fs") == "real"
    fs = _RealFS() if real else simfs.SimFS(case.get("faults"))
    saved = []
    if not real:
        saved = [(mod, simfs.install_seams(mod, fs)) for mod in (mb, mp)]
    else:
        out.probe("realfs_run")

    def clear_memos():
        for fn in (getattr(pin, "load_dfa_for_perm", None),):
            cc = getattr(fn, "cache_clear", None)
            if cc is not None:
                cc()

    clear_memos()
    _use_real_make_dfa(bool(case.get("real_dfa")))
    if case.get("real_dfa"):
        out.probe("real_make_dfa")
        # every such history starts where a fresh process would (first use of every lazily
        # filled table included), whatever earlier histories of this process did
        histsim.restore_process_state(_STATE.get("pristine", []))
    # model: abs path -> {"ack": dataset|None, "maybe": [datasets], "history": [datasets], "clean": bool}
    files = {}
    dfas = {}  # abs path of the automaton file -> "ok" | "maybe"
    obs = []
    abst = []
    ever_written = set()

    def violate(kind, key, detail, opidx):
        violations.append(core.Violation(kind, key, f"op #{opidx}: {detail}"))

    def fmodel(path):
        return files.setdefault(path, {"ack": None, "maybe": [], "history": [], "clean": True})

    def dfa_path(perm):
        return fs.abspath(f"dfa_db/S{len(perm)}/{''.join(str(i) for i in perm)}.txt")

    def fresh(perm):
        return _fresh(pm, perm)

    def check_dfa(got, perms, strict, opidx, what):
        """got: ("v", dfa) | ("exc", ...).  perms: list of perms whose union is expected."""
        if got[0] == "exc":
            if strict:
                violate("load_failed", {"op": what}, f"{what}({perms}) raised {got[1]}: {got[2]} although every file involved was written without a fault", opidx)
            return
        dfa = got[1]
        try:
            want = None
            for p in sorted(set(tuple(q) for q in perms), key=lambda t: (len(t), t)):
                d = fresh(p)
                want = d if want is None else want.union(d)
            if want is None:
                return
            word = RD.distinguishing_word(dfa, want)
        except Exception as exc:  # pylint: disable=broad-except
            violate("load_wrong_language", {"op": what}, f"{what}({perms}) returned an object that is not a usable automaton: {type(exc).__name__}: {exc}", opidx)
            return
        if word is not None:
            violate("load_wrong_language", {"op": what},
                    f"{what}({perms}) returned an automaton that differs from a fresh computation on the word {word!r}", opidx)

    try:
        for idx, op in enumerate(case["ops"]):
            kind = op["op"]
            fired_before = len(fs.fired)
            trace_before = len(fs.trace)
            fs.marker = idx
            crashed = False
            buf = io.StringIO()
            result = None
            opened_before = len(getattr(fs, "opened_for_writing", []))
            interrupted = False
            try:
                with contextlib.redirect_stdout(buf):
                    if op.get("interrupt") and not real and kind in ("write", "read", "store", "load", "from_db", "create_db"):
                        # the call is interrupted at a seeded executed line of library code
                        # (Ctrl-C, a signal ...): the process lives on, with whatever the call had
                        # done to files and to process-wide tables

                        sub = dict(op)
                        del sub["interrupt"]
                        pref = [os.path.join(core.repo_dir(), "permuta") + os.sep]
                        at = op["interrupt"]
                        if isinstance(at, dict):
                            # right after a line that changed process-wide library state
                            at = histsim.guided_interrupt_at(lambda: _library_call(mb, pin, pm, dict(sub), fresh), pref, at["guided"])
                            out.probe("guided_interrupt" if at else "guided_interrupt_no_state_change")
                        status, res, _n = histsim.run_interruptible(
                            lambda: _library_call(mb, pin, pm, sub, fresh), at or 10 ** 9, pref)
                        if status == "interrupted":
                            interrupted = True
                            out.fault("interrupted_call")
                            out.probe("interrupted_call")
                            out.nontrivial = True
                        else:
                            result = res
                    elif kind in ("write", "read", "store", "load", "from_db", "create_db"):
                        result = _library_call(mb, pin, pm, op, fresh)
                    elif kind == "write":
                        pred = PREDS[op["pred"]]
                        result = mb.write_bisc_files(op["n"], prop_func(op["pred"]), op["name"])
                    elif kind == "read":
                        result = ["v", mb.read_bisc_file(f"{op['name']}_{op['which']}_len{op['n']}")]
                    elif kind == "store":
                        perm = pm.Perm(op["perm"])
                        if op.get("with_dfa"):
                            pin.store_dfa_for_perm(perm, fresh(op["perm"]))
                        else:
                            pin.store_dfa_for_perm(perm)
                        result = ["v", None]
                    elif kind == "load":
                        result = ["v", pin.load_dfa_for_perm(pm.Perm(op["perm"]))]
                    elif kind == "from_db":
                        result = ["v", _from_db(pin, _basis_arg([pm.Perm(p) for p in op["basis"]], op.get("cont", "list")), op.get("via"))]
                    elif kind == "create_db":
                        pin.create_dfa_db_for_length(op["n"])
                        result = ["v", None]
                    elif kind == "restart":
                        clear_memos()
                        fs.restart()
                        out.fault("restart")
                    elif kind == "chdir":
                        if real:
                            fs.chdir_mk(op["dir"])
                        else:
                            fs.mkdir(op["dir"], parents=True, exist_ok=True)
                            fs.chdir(op["dir"])
                        out.probe("chdir")
                    elif kind == "powerloss":
                        if not real:
                            dirty = [p for p in fs.dirty]
                            res = fs.power_loss([tuple(c) for c in op["choices"]])
                            clear_memos()
                            out.fault("power_loss")
                            if dirty:
                                out.probe("power_loss_dirty")
                                out.nontrivial = True
                            for p, how in res.items():
                                if how != "kept":
                                    if p in files:
                                        files[p]["clean"] = False
                                    if p in dfas:
                                        dfas[p] = "maybe"
                                    elif p.endswith(".txt") and "dfa_db" in p:
                                        dfas[p] = "maybe"
                            log.add("powerloss", idx, sorted(res.items()))
            except simfs.SimCrash:
                crashed = True
            except simfs.SimfsUnsupported as exc:
                raise core.HarnessError(f"simfs does not model an API the code under test uses: {exc}") from exc
            except Exception as exc:  # pylint: disable=broad-except
                result = ["exc", type(exc).__name__, str(exc)[:160]]
            new_faults = fs.fired[fired_before:]
            faulted = bool(new_faults) or crashed or interrupted
            if interrupted:
                for wpath in fs.opened_for_writing[opened_before:]:
                    if "dfa_db" in wpath:
                        if dfas.get(wpath) != "ok":
                            dfas[wpath] = "maybe"
                    else:
                        fm = fmodel(wpath)
                        fm["clean"] = False
                obs.append((kind, idx, "interrupted"))
            for f in new_faults:
                out.fault(f"{f['kind']}@{f['at']}")
                out.probe("crash_fired" if f["kind"] == "crash" else "error_fired")
                if f["at"] == "write" and 0 < f.get("frac", 0) < 1:
                    out.probe("torn_write")
                out.nontrivial = True
                abst.append((kind, f["kind"], f["at"]))
            abst.append((kind,))

            # ---- database files: what this op really did to them (from the I/O trace) ----
            if not real:
                wrote, closed = {}, set()
                for _i, ckind, cpath, _sz, _mk in fs.trace[trace_before:]:
                    if "dfa_db" not in cpath:
                        continue
                    if ckind == "write":
                        wrote[cpath] = True
                        closed.discard(cpath)
                    elif ckind == "close" and cpath in wrote:
                        closed.add(cpath)
                bad_paths = {f["path"] for f in new_faults}
                for cpath in wrote:
                    if cpath in bad_paths or cpath not in closed or (crashed and cpath in bad_paths):
                        dfas[cpath] = "maybe"
                    elif dfas.get(cpath) != "maybe" or True:
                        # a complete, unfaulted write of the whole file (store is write-once,
                        # so the file did not exist before)
                        dfas[cpath] = "ok" if cpath not in bad_paths else "maybe"
                for f in new_faults:
                    if "dfa_db" in f["path"] and f["at"] in ("open", "close", "write") and dfas.get(f["path"]) != "ok":
                        dfas[f["path"]] = "maybe"

            # ---- model update and oracle --------------------------------------
            if interrupted and kind != "write":
                pass
            elif kind == "write":
                paths = {w: fs.abspath(f"{op['name']}_{w}_len{op['n']}.json") for w in ("good", "bad")}
                pred = PREDS[op["pred"]]
                datasets = {"good": {}, "bad": {}}
                for n in range(op["n"] + 1):
                    allp = list(permutations(range(n)))
                    datasets["good"][n] = [p for p in allp if pred(p)]  # by truthiness
                    datasets["bad"][n] = [p for p in allp if not pred(p)]
                for w, p in paths.items():
                    m = fmodel(p)
                    if p in ever_written:
                        out.probe("name_written_twice")
                        out.nontrivial = True
                    ever_written.add(p)
                    m["history"].append(datasets[w])
                    if faulted or (result is not None and isinstance(result, list) and result[0] == "exc"):
                        m["maybe"].append(datasets[w])
                        m["clean"] = False
                    else:
                        m["ack"] = datasets[w]
                        m["maybe"] = []
                        m["clean"] = True
                if isinstance(result, list) and result[0] == "exc" and not faulted:
                    violate("write_failed", {"type": result[1]}, f"write_bisc_files raised {result[1]}: {result[2]} without any injected fault", idx)
                if not interrupted:
                    obs.append(("write", idx, "crash" if crashed else "ok"))
            elif kind == "read" and not crashed:
                p = fs.abspath(f"{op['name']}_{op['which']}_len{op['n']}.json")
                m = files.get(p)
                if result[0] == "exc":
                    shown = ("invalid", result[1])
                    got = None
                else:
                    got = result[1]
                    if got == {} or got is None:
                        shown = ("invalid", "empty")
                        got = None
                    elif not _dataset_ok_types(got, pm):
                        violate("read_wrong_types", {"which": op["which"]},
                                f"read_bisc_file returned {type(got).__name__} with keys {list(got)[:4]!r}: keys must be int, values lists of Perm", idx)
                        shown = ("bad-types",)
                        got = None
                    else:
                        got = _plain_dataset(got)
                        shown = ("data", core.canon(got))
                obs.append(("read", idx, shown))
                if result[0] == "v" and isinstance(result[1], dict):
                    # the caller edits what it was given; later reads must not be affected
                    for lst in result[1].values():
                        if isinstance(lst, list):
                            del lst[:]
                    result[1].clear()
                if m is None:
                    out.probe("read_never_written")
                    if got is not None:
                        violate("missing_read_as_data", {}, f"{p} was never written but read_bisc_file returned data {str(got)[:120]}", idx)
                elif m["clean"] and not faulted:
                    if got is None:
                        violate("read_lost_data", {"which": op["which"]},
                                f"{p} was last written without any fault but is reported invalid ({shown})", idx)
                    elif got != m["ack"]:
                        violate("read_wrong_data", {"which": op["which"]},
                                f"{p}: read {str(got)[:150]} but the dataset last written is {str(m['ack'])[:150]}", idx)
                else:
                    acceptable = list(m["maybe"]) + ([m["ack"]] if m["ack"] is not None else []) + list(m["history"])
                    if got is not None and got not in acceptable:
                        violate("read_wrong_data", {"which": op["which"], "after_fault": True},
                                f"{p}: read {str(got)[:150]}, which is neither the old nor the new dataset of that name", idx)
            elif kind in ("store", "create_db"):
                perms = [tuple(op["perm"])] if kind == "store" else list(permutations(range(op["n"])))
                if real:
                    for perm in perms:
                        dfas.setdefault(dfa_path(perm), "ok")
                if isinstance(result, list) and result[0] == "exc" and not faulted:
                    violate("store_failed", {"type": result[1]}, f"{kind} raised {result[1]}: {result[2]} without any injected fault", idx)
                obs.append((kind, idx, "crash" if crashed else (result[0] if result else None)))
            elif kind in ("load", "from_db") and not crashed:
                perms = [tuple(op["perm"])] if kind == "load" else [tuple(q) for q in op["basis"]]
                strict = not faulted
                touched_paths = {t[2] for t in fs.trace[trace_before:]} if not real else set()
                for perm in perms:
                    p = dfa_path(perm)
                    if real:
                        dfas.setdefault(p, "ok")
                        continue
                    if p not in touched_paths:
                        continue  # answered from the in-process loader memo
                    if dfas.get(p) == "maybe":
                        strict = False
                    if not any(t[1] == "write" and t[2] == p for t in fs.trace[trace_before:]):
                        pass
                    else:
                        out.probe("load_absent_stores")
                if kind == "from_db":
                    out.probe("from_db_union")
                if touched_paths and any(o["op"] == "restart" for o in case["ops"][:idx]):
                    out.probe("load_after_restart")
                check_dfa(result, perms, strict, idx, kind)
                obs.append((kind, idx, result[0] if result[0] == "exc" else "dfa"))
            elif crashed:
                obs.append((kind, idx, "crash"))
            if crashed:
                # the process is gone; a new one starts on the same files
                clear_memos()
                fs.restart()
            log.add("op", idx, kind, core.canon(obs[-1]) if obs else None, [(f["kind"], f["at"]) for f in new_faults])
            if violations:
                break
    finally:
        if real:
            fs.close()
        else:
            for mod, sm in saved:
                simfs.remove_seams(mod, sm)
        clear_memos()
    if not real and not case.get("faults") and not case.get("real_dfa"):
        _STATE["last_ok"] = not violations
        _STATE["last_trace"] = list(fs.trace)
        _STATE["last_obs"] = core.canon(obs)
    if real and case.get("expect_obs") is not None and not violations:
        if core.canon(obs) != case["expect_obs"]:
            raise core.HarnessError(f"simfs and the real file system disagree on a fault-free history:\nsim  {case['expect_obs']}\nreal {core.canon(obs)}")
    out.steps = len(fs.trace) if not real else len(case["ops"])
    out.abstraction = str(hash(tuple(abst)))
    out.digest = log.digest()
    if violations:
        out.violation = violations[0]
    out.extra["io_calls"] = out.steps
    return out


_MISSING = object()
_PROP_FUNCS = {}


def prop_func(name):
    """One function object per named property for the whole process, as a user
    who passes the same function to several write_bisc_files calls."""
    if name not in _PROP_FUNCS:
        pred = PREDS[name]

        def prop(perm, _f=pred):
            return _f(tuple(perm))

        prop.__name__ = name
        _PROP_FUNCS[name] = prop
    return _PROP_FUNCS[name]


def _execute_concurrent(case):
    """Writer / reader tasks interleaved at every I/O call.  Oracle: nobody ever
    gets an automaton of another language or a dataset that was never written
    under that name (a failure that is reported - exception, {} - is acceptable
    while others are writing); when everybody is done and the process restarts,
    every database entry loads as its own automaton or is reported invalid."""
    import random  # pylint: disable=import-outside-toplevel
    import threading  # pylint: disable=import-outside-toplevel

    from sim import threadsim  # pylint: disable=import-outside-toplevel

    prepare("quick")
    pm = common.lazy_permuta()
    mb, mp = _modules()
    pin = mp.PinWords
    out = core.Outcome()
    log = core.EventLog()
    violations = []
    fs = simfs.SimFS()
    saved = [(mod, simfs.install_seams(mod, fs)) for mod in (mb, mp)]

    def clear_memos():
        cc = getattr(getattr(pin, "load_dfa_for_perm", None), "cache_clear", None)
        if cc is not None:
            cc()

    clear_memos()
    _use_real_make_dfa(bool(case.get("real_dfa")))
    if case.get("real_dfa"):
        histsim.restore_process_state(_STATE.get("pristine", []))
    sdesc = case["schedule"]
    if sdesc["mode"] == "segments":
        policy = threadsim.SegmentPolicy(sdesc["segments"])
    else:
        policy = threadsim.RandomWalkPolicy(random.Random(sdesc["seed"]), sdesc["p"])
    sched = threadsim.Sched(policy, [], log, max_steps=200_000)

    def hook(_kind, _path):
        if threading.current_thread().name[:4] == "sim-":
            sched.yp(sched.current, "io")

    fs.yield_hook = hook
    written = {}  # abs path -> list of datasets ever written there
    results = {}

    def fresh(perm):
        return _fresh(pm, perm)

    def judge_dfa(res, perms, where):
        if res[0] != "v":
            return
        try:
            want = None
            for p in sorted(set(tuple(q) for q in perms), key=lambda t: (len(t), t)):
                want = fresh(p) if want is None else want.union(fresh(p))
            word = RD.distinguishing_word(res[1], want)
        except Exception as exc:  # pylint: disable=broad-except
            violations.append(core.Violation("load_wrong_language", {"op": "concurrent"}, f"{where}: not a usable automaton: {exc}"))
            return
        if word is not None:
            violations.append(core.Violation("load_wrong_language", {"op": "concurrent"},
                                             f"{where}: automaton for {perms} differs from a fresh computation on the word {word!r}"))

    def make_fn(tdesc):
        def fn(tid):
            sched.yp(tid, "start")
            res = results.setdefault(tid, [])
            for op in tdesc["ops"]:
                kind = op["op"]
                try:
                    if kind == "store":
                        pin.store_dfa_for_perm(pm.Perm(op["perm"]))
                        r = ["v", None]
                    elif kind == "load":
                        r = ["v", pin.load_dfa_for_perm(pm.Perm(op["perm"]))]
                    elif kind == "from_db":
                        r = ["v", pin.make_dfa_for_basis_from_db([pm.Perm(p) for p in op["basis"]])]
                    elif kind == "create_db":
                        pin.create_dfa_db_for_length(op["n"])
                        r = ["v", None]
                    elif kind == "write":
                        pred = PREDS[op["pred"]]
                        for w in ("good", "bad"):
                            ds = {n: [p for p in permutations(range(n)) if bool(pred(p)) == (w == "good")] for n in range(op["n"] + 1)}
                            written.setdefault(fs.abspath(f"{op['name']}_{w}_len{op['n']}.json"), []).append(ds)
                        mb.write_bisc_files(op["n"], prop_func(op["pred"]), op["name"])
                        r = ["v", None]
                    else:
                        r = ["v", mb.read_bisc_file(f"{op['name']}_{op['which']}_len{op['n']}")]
                except threadsim.SimAbort:
                    raise
                except simfs.SimfsUnsupported:
                    raise
                except Exception as exc:  # pylint: disable=broad-except
                    r = ["exc", type(exc).__name__, str(exc)[:120]]
                res.append(r)
                sched.yp(tid, "opdone")
        return fn

    buf = io.StringIO()
    try:
        with contextlib.redirect_stdout(buf):
            for tid, tdesc in enumerate(case["threads"]):
                sched.spawn(tid, make_fn(tdesc))
            sched.run(wall_timeout=600)
            for t in sched.threads.values():
                if t.exc is not None:
                    raise core.HarnessError(f"exception in harness thread code: {t.exc!r}")
            fs.yield_hook = None
            if sched.abort is not None:
                violations.append(core.Violation("no_progress" if sched.abort == "budget" else "deadlock", {"op": "concurrent"},
                                                 "concurrent tasks did not finish"))
            else:
                for tid, tdesc in enumerate(case["threads"]):
                    for op, r in zip(tdesc["ops"], results.get(tid, [])):
                        if op["op"] == "load":
                            judge_dfa(r, [op["perm"]], f"thread {tid} load")
                        elif op["op"] == "from_db":
                            judge_dfa(r, op["basis"], f"thread {tid} from_db")
                        elif op["op"] == "read" and r[0] == "v" and r[1]:
                            path = fs.abspath(f"{op['name']}_{op['which']}_len{op['n']}.json")
                            if not _dataset_ok_types(r[1], pm) or _plain_dataset(r[1]) not in written.get(path, []):
                                violations.append(core.Violation("read_wrong_data", {"op": "concurrent"},
                                                                 f"thread {tid} read {path}: {str(r[1])[:120]} was never written under that name"))
                        log.add("res", tid, op["op"], r[0])
                # quiescence: a new process looks at what is on disk
                clear_memos()
                stored = set()
                for tdesc in case["threads"]:
                    for op in tdesc["ops"]:
                        if op["op"] in ("store", "load"):
                            stored.add(tuple(op["perm"]))
                        elif op["op"] == "from_db":
                            stored.update(tuple(q) for q in op["basis"])
                for perm in sorted(stored, key=lambda t: (len(t), t)):
                    try:
                        r = ["v", pin.load_dfa_for_perm(pm.Perm(perm))]
                    except Exception as exc:  # pylint: disable=broad-except
                        r = ["exc", type(exc).__name__, str(exc)[:120]]
                    judge_dfa(r, [perm], "after all tasks finished, fresh process, load")
                    log.add("final", perm, r[0])
                for path, datasets in sorted(written.items()):
                    name = path.rsplit("/", 1)[-1][:-5]
                    got = mb.read_bisc_file(name)
                    if got and (not _dataset_ok_types(got, pm) or _plain_dataset(got) not in datasets):
                        violations.append(core.Violation("read_wrong_data", {"op": "concurrent"},
                                                         f"after all tasks finished {path} reads as {str(got)[:120]}, never written under that name"))
    finally:
        for mod, sm in saved:
            simfs.remove_seams(mod, sm)
        clear_memos()
    out.steps = sched.steps
    out.extra["segments"] = sched.segments
    out.fault("io_interleaving", sched.switches)
    out.probe("concurrent_tasks")
    out.nontrivial = sched.switches > 0
    out.digest = log.digest()
    out.abstraction = "conc" + str(hash(tuple(tuple(s) for s in sched.segments[:40])))
    if violations:
        out.violation = violations[0]
    return out


def freeze(case, out):
    if case.get("kind") != "concurrent":
        return None
    segs = out.extra.get("segments")
    if not segs:
        return None
    case["schedule"] = {"mode": "segments", "segments": segs}
    return case


# --- minimisation ------------------------------------------------------------------------------


def shrink_targets(case):
    if case.get("kind") == "concurrent":
        t = [["threads", i, "ops"] for i in range(len(case["threads"]))]
        if case["schedule"]["mode"] == "segments":
            t.append(["schedule", "segments"])
        return t
    if case.get("kind") != "history":
        return []
    return [["ops"], ["faults"]]


def simplify(case):
    if case.get("kind") != "history":
        return
    for i, op in enumerate(case["ops"]):
        if isinstance(op.get("n"), int) and op["n"] > 0:
            c = copy.deepcopy(case)
            c["ops"][i]["n"] = op["n"] - 1
            yield c
