#!/venv/bin/python
"""Sensitivity self-test: apply each seeded mutant to a scratch copy of the
tree under test (outside /repo and /verif, removed afterwards), run the quick
check of the property it targets against that copy and record whether and how
fast it is detected.  Equivalent mutants (behaviour preserving refactors) must
stay silent.

usage: selftest/sensitivity.py [--only NAME_SUBSTR] [--property Cxx] [--runs N] [--repo /repo]
"""
import argparse
import glob
import json
import os
import shutil
import subprocess
import sys
import tempfile
import time

HERE = os.path.dirname(os.path.abspath(__file__))
VERIF = os.path.dirname(HERE)


def apply_mutant(scratch, spec):
    for edit in spec["edits"]:
        path = os.path.join(scratch, edit["file"])
        with open(path) as f:
            src = f.read()
        cnt = src.count(edit["old"])
        want = edit.get("count", 1)
        if edit.get("first_only"):
            if cnt < 1:
                raise SystemExit(f"mutant {spec['name']}: anchor not found in {edit['file']}")
            src = src.replace(edit["old"], edit["new"], 1)
            with open(path, "w") as f:
                f.write(src)
            continue
        if cnt != want:
            raise SystemExit(f"mutant {spec['name']}: expected {want} occurrence(s) of the anchor in {edit['file']}, found {cnt}")
        src = src.replace(edit["old"], edit["new"])
        with open(path, "w") as f:
            f.write(src)


def main():
    ap = argparse.ArgumentParser()
    ap.add_argument("--only", default="")
    ap.add_argument("--property", default="")
    ap.add_argument("--runs", type=int, default=None)
    ap.add_argument("--repo", default="/repo")
    ap.add_argument("--out", default=os.path.join(HERE, "sensitivity_report.json"))
    args = ap.parse_args()
    specs = []
    for path in sorted(glob.glob(os.path.join(HERE, "mutants", "*.json"))):
        with open(path) as f:
            data = json.load(f)
        for spec in data if isinstance(data, list) else [data]:
            if args.only and args.only not in spec["name"]:
                continue
            if args.property and spec["property"] != args.property:
                continue
            specs.append(spec)
    report = []
    bad = 0
    for spec in specs:
        scratch = tempfile.mkdtemp(prefix="verif-mutant-", dir=os.environ.get("TMPDIR", "/tmp"))
        try:
            shutil.copytree(os.path.join(args.repo, "permuta"), os.path.join(scratch, "permuta"),
                            ignore=shutil.ignore_patterns("__pycache__"))
            apply_mutant(scratch, spec)
            cmd = [os.path.join(VERIF, "check"), spec["property"], "--repo", scratch, "--tier", "quick"]
            runs = args.runs if args.runs is not None else spec.get("runs")
            if runs:
                cmd += ["--runs", str(runs)]
            env = dict(os.environ, VERIF_EVIDENCE_DIR=os.path.join(scratch, "evidence"),
                       VERIF_REPLAY_DIR=os.path.join(scratch, "replays"))
            t0 = time.time()
            proc = subprocess.run(cmd, capture_output=True, text=True, env=env, timeout=3600, check=False)
            wall = time.time() - t0
            viol = [ln for ln in proc.stdout.splitlines() if ln.startswith("VIOLATION")]
            desc = [ln for ln in proc.stdout.splitlines() if ln.startswith("violation:")]
            detected = proc.returncode == 1 and bool(viol)
            expect = spec.get("expect", "detected")
            ok = (detected and expect == "detected") or (proc.returncode == 0 and not viol and expect == "silent")
            if not ok:
                bad += 1
            report.append({"name": spec["name"], "property": spec["property"], "expect": expect,
                           "exit": proc.returncode, "detected": detected, "ok": ok, "wall_s": round(wall, 1),
                           "first_violation": desc[0][:300] if desc else "",
                           "tail": "" if ok else (proc.stdout[-1500:] + proc.stderr[-1500:])})
            print(f"{'ok  ' if ok else 'FAIL'} {spec['property']} {spec['name']}: expect={expect} exit={proc.returncode} "
                  f"{wall:.1f}s {desc[0][:160] if desc else ''}", flush=True)
        finally:
            shutil.rmtree(scratch, ignore_errors=True)
    with open(args.out, "w") as f:
        json.dump(report, f, indent=1)
    print(f"{len(report) - bad}/{len(report)} mutants behaved as expected")
    return 1 if bad else 0


if __name__ == "__main__":
    sys.exit(main())
