"""Structure theorems for growth of permutation classes, re-implemented from the
definitions on plain tuples (nothing imported from permuta).

finite            iff the basis has an increasing and a decreasing element
polynomial        iff the basis meets each of ten classes: the four horizontal and
                  four vertical juxtapositions of two monotone sequences, the
                  direct sums of blocks 1 / 21, the skew sums of blocks 1 / 12
rightmost insertion-encodable  iff it meets the four horizontal juxtaposition classes
topmost   insertion-encodable  iff it meets the four vertical juxtaposition classes
"""


def mono(seq, direction):
    if direction == "+":
        return all(seq[i] < seq[i + 1] for i in range(len(seq) - 1))
    return all(seq[i] > seq[i + 1] for i in range(len(seq) - 1))


def horizontal(p, x, y):
    """p is an x-monotone sequence followed by a y-monotone one (split search)."""
    return any(mono(p[:k], x) and mono(p[k:], y) for k in range(len(p) + 1))


def vertical(p, x, y):
    """the entries below some value form an x-monotone subsequence and the rest a
    y-monotone one (split search over the value)."""
    return any(mono([e for e in p if e < v], x) and mono([e for e in p if e >= v], y) for v in range(len(p) + 1))


def sum_of_1_and_21(p):
    n, i = len(p), 0
    while i < n:
        if p[i] == i:
            i += 1
        elif i + 1 < n and p[i] == i + 1 and p[i + 1] == i:
            i += 2
        else:
            return False
    return True


def skew_sum_of_1_and_12(p):
    n, i = len(p), 0
    while i < n:
        if p[i] == n - 1 - i:
            i += 1
        elif i + 1 < n and p[i] == n - 2 - i and p[i + 1] == n - 1 - i:
            i += 2
        else:
            return False
    return True


SIGNS = [("+", "+"), ("+", "-"), ("-", "+"), ("-", "-")]
H_CLASSES = [("H" + x + y, (lambda p, x=x, y=y: horizontal(p, x, y))) for x, y in SIGNS]
V_CLASSES = [("V" + x + y, (lambda p, x=x, y=y: vertical(p, x, y))) for x, y in SIGNS]
TEN = H_CLASSES + V_CLASSES + [("L2", sum_of_1_and_21), ("L2I", skew_sum_of_1_and_12)]


def is_finite(basis):
    return any(mono(p, "+") for p in basis) and any(mono(p, "-") for p in basis)


def meets_all(basis, classes):
    return all(any(test(p) for p in basis) for _name, test in classes)


def is_polynomial(basis):
    return meets_all(basis, TEN)


def is_rightmost_encodable(basis):
    return meets_all(basis, H_CLASSES)


def is_topmost_encodable(basis):
    return meets_all(basis, V_CLASSES)


def is_insertion_encodable(basis):
    return is_rightmost_encodable(basis) or is_topmost_encodable(basis)


def erdos_szekeres_bound(basis):
    """For a finite class: no member is longer than (a-1)(b-1) where a, b are the
    lengths of the shortest increasing / decreasing basis element."""
    a = min(len(p) for p in basis if mono(p, "+"))
    b = min(len(p) for p in basis if mono(p, "-"))
    return (a - 1) * (b - 1)


FIB = [1, 1, 2, 3, 5, 8, 13, 21, 34, 55]


def self_check():
    from itertools import permutations

    def count(test, n):
        return sum(1 for q in permutations(range(n)) if test(q))

    # a juxtaposition of two increasing sequences: at most one descent -> 2^n - n (Eulerian row sums)
    assert [count(lambda q: horizontal(q, "+", "+"), n) for n in range(1, 7)] == [1, 2, 5, 12, 27, 58]
    assert [count(lambda q: vertical(q, "+", "+"), n) for n in range(1, 7)] == [1, 2, 5, 12, 27, 58]
    # inc followed by dec: choose the set left of the maximum -> 2^(n-1)
    assert [count(lambda q: horizontal(q, "+", "-"), n) for n in range(1, 7)] == [1, 2, 4, 8, 16, 32]
    assert [count(lambda q: vertical(q, "-", "+"), n) for n in range(1, 7)] == [1, 2, 4, 8, 16, 32]
    assert [count(sum_of_1_and_21, n) for n in range(7)] == FIB[:7]
    assert [count(skew_sum_of_1_and_12, n) for n in range(7)] == FIB[:7]
    # vertical classes are the inverses of the horizontal ones
    from . import patterns as P
    for n in range(6):
        for q in permutations(range(n)):
            for x, y in SIGNS:
                assert vertical(q, x, y) == horizontal(P.inverse(q), x, y)
    # known verdicts: Av(123, 321) finite; Av(132, 312, 321)... ; Av(21) polynomial; Av(231) not polynomial, not ins-enc
    assert is_finite([(0, 1, 2), (2, 1, 0)]) and not is_finite([(0, 1, 2)])
    assert is_polynomial([(1, 0)]) and is_polynomial([(0, 1)])
    assert not is_polynomial([(1, 2, 0)]) and not is_insertion_encodable([(1, 2, 0)])
    assert is_insertion_encodable([(0, 1, 2), (2, 1, 0)])
    # Av(312, 231): layered permutations reversed... 2^(n-1) members, has a regular insertion encoding
    assert not is_polynomial([(2, 0, 1), (1, 2, 0)])
    return True
