"""Allocation-history injector.

The simulator cannot choose addresses, it chooses allocation *events*: which
objects of which pymalloc size class are created, held and released between
two observations.  A hash derived from the address of a temporary is equal for
consecutive calls only because the allocator hands the just-freed block out
again; holding fresh objects of the same size class takes that block away, so
the next temporary lands elsewhere.  A correct hash is independent of all this,
so none of these faults can make correct code fail.
"""
import gc

_SLOT_TYPES = {}


def slot_type(k):
    """A class whose instances have k slots and no __dict__: GC object of
    16 (gc header) + 16 (object header) + 8k bytes, allocated through pymalloc
    (sizes up to 512 bytes) with no type-specific free list."""
    t = _SLOT_TYPES.get(k)
    if t is None:
        t = type(f"Slot{k}", (), {"__slots__": tuple(f"a{i}" for i in range(k))})
        _SLOT_TYPES[k] = t
    return t


ALL_SLOT_COUNTS = list(range(0, 61, 2))


class Heap:
    """Objects the simulator is holding on to."""

    def __init__(self):
        self.held = {}

    def hold(self, tag, slot_counts, count):
        lst = self.held.setdefault(tag, [])
        for k in slot_counts:
            cls = slot_type(k)
            lst.extend(cls() for _ in range(count))
        return len(lst)

    def hold_misc(self, tag, count):
        """Non-slot objects of assorted sizes: bytes, tuples, dicts, lists,
        bound methods, super proxies, frozensets."""
        lst = self.held.setdefault(tag, [])

        class _B:  # noqa: N801
            def m(self):
                return super()

        for i in range(count):
            lst.append(bytes(7 + 16 * (i % 30)))
            lst.append(tuple(range(i % 23)))
            lst.append({i: i})
            lst.append([i] * (i % 9))
            lst.append(_B().m)
            lst.append(_B().m())
            lst.append(frozenset(range(i % 11)))
            lst.append(object())
        return len(lst)

    def release(self, tag, every=1):
        lst = self.held.get(tag)
        if not lst:
            return 0
        if every <= 1:
            n = len(lst)
            del self.held[tag]
            return n
        keep = [o for i, o in enumerate(lst) if i % every]
        n = len(lst) - len(keep)
        self.held[tag] = keep
        return n

    def release_all(self):
        self.held.clear()


def churn(n):
    """Create and drop temporaries of many shapes."""
    acc = 0
    for i in range(n):
        t = (i, i + 1, (i,))
        d = {i: t}
        s = frozenset((i, i + 1))
        o = slot_type((i * 2) % 60)()
        acc += len(t) + len(d) + len(s) + (o is not None)
    return acc


def recurse(depth):
    """Deep recursion: frame and locals allocation, then everything freed."""
    if depth <= 0:
        return 0
    local = [depth, (depth,)]
    return recurse(depth - 1) + len(local) - 2


def canonical_perturbation(heap, tag="canon"):
    """Take the head of the free list of every small size class."""
    heap.hold(tag, ALL_SLOT_COUNTS, 3)
    heap.hold_misc(tag, 2)


def collect():
    return gc.collect()
