"""C01 -- classical pattern occurrences, containment and counts are exact, no
matter how the pattern object was used before.

histsim: a pool of pattern objects (fresh, equal-but-distinct twins, the shared
object handed out by the standardisation memo, copies / pickles made before or
after first use) is driven through a seeded history of searches; occurrence
generators are live tasks advanced in seeded interleavings (several generators
of the *same* pattern object on different targets at once); the per-object
search-table memo is flushed or pre-warmed as a fault.
"""
import copy
import gc
import pickle
import sys

from ref import patterns as RP
from sim import allocsim, core, histsim

from . import common

PROPERTY = "C01"
LEVEL = "exploration"
RULE = (
    "each seed -> pool of 2-6 pattern objects over 1-4 distinct patterns (length 0-5) and a history of 6-30 ops "
    "(occurrence generators created / stepped / drained / abandoned, contains / avoids / avoids_set / in / counts / "
    "contained_in / avoided_by, memo flush / pre-warm, copy / pickle of a used object); non-trivial = a pattern "
    "object was searched in a second target after its memo was filled, or two generators of one object were "
    "interleaved; distinct = distinct event-log digest"
)
ABSTRACTION = "sequence of (op kind, pattern-object index, memo state cold/warm, number of live generators of that object)"
COMPONENTS = {
    "real": ["Perm.occurrences_in / occurrences_of / contains / avoids / avoids_set / __contains__ / count_occurrences_of",
             "Patt.count_occurrences_in / contained_in / avoided_by", "Perm._pattern_details memo", "left_floor_and_ceiling"],
    "simulated": ["the caller: seeded interleaving of live occurrence generators", "memo loss / pre-warming, object copies"],
}
ASSUMPTIONS = ["reference = all index combinations filtered by order-isomorphism (ref/patterns.py)"]
EXPECTED_PROBES = ["guided_interrupt", "memo_hit_other_target", "interleaved_same_object", "memo_flush", "shared_to_standard_object",
                   "copy_after_use", "empty_pattern", "pattern_longer_than_target", "colours", "occurrence_ends_at_last_index", "interrupted_call", "pattern_object_address_reused", "derived_from_used_object", "used_inside_mesh_pattern"]


def plan(tier):
    if tier == "quick":
        return {"runs": 150000, "chunk": 500, "wall_cap": 150}
    return {"runs": 8000000, "chunk": 2000, "wall_cap": 900}


def prepare(tier):  # pylint: disable=unused-argument
    # pin the reference with hand-checkable facts
    assert RP.occurrences((2, 0, 1), (5, 3, 0, 4, 2, 1)) == [(0, 1, 3), (0, 2, 3), (0, 2, 4), (0, 2, 5), (1, 2, 4), (1, 2, 5)]
    assert RP.occurrences((), (1, 0)) == [()]
    assert RP.occurrences((0, 1), (0, 1, 2)) == [(0, 1), (0, 2), (1, 2)]
    assert RP.occurrences((0, 1, 2), (1, 0)) == []
    assert len(RP.occurrences((0, 1), tuple(range(7)))) == 21


def _exhaustive_for_pattern(arg):
    """One pattern object reused, in order, for every target of the bounded
    domain: the longest possible history on one memo."""
    patt, maxn = arg
    pm = common.lazy_permuta()
    obj = pm.Perm(patt)
    pairs = 0
    bad = None
    prev = None
    for n in range(maxn + 1):
        for t in RP.all_perms(n):
            pairs += 1
            try:
                got = list(obj.occurrences_in(pm.Perm(t)))
            except Exception as exc:  # pylint: disable=broad-except
                got = ("exception", type(exc).__name__)
            if got != RP.occurrences(patt, t) and bad is None:
                bad = (list(patt), list(prev) if prev is not None else None, list(t))
            prev = t
    return pairs, bad


def preflight(tier, batch_seed, workers):  # pylint: disable=unused-argument
    """Complete enumeration of the bounded input domain (not a sampled search):
    every pattern of length <= K against every target of length <= N."""
    from sim import driver  # pylint: disable=import-outside-toplevel

    maxk, maxn = (4, 6) if tier == "quick" else (5, 7)
    patts = [p for k in range(maxk + 1) for p in RP.all_perms(k)]
    res = driver.fork_map(_exhaustive_for_pattern, [(p, maxn) for p in patts], workers)
    agg = driver.empty_agg()
    pairs = 0
    for (n_pairs, bad), patt in zip(res, patts):
        pairs += n_pairs
        if bad is not None:
            ops = [{"op": "occurrences_list", "patt": 0, "target": t} for t in bad[1:] if t is not None]
            case = {"pool": [{"perm": bad[0], "route": "fresh"}], "ops": ops}
            out = execute(case)
            if out.violation is None:
                out.violation = core.Violation("wrong_answer", {"op": "occurrences_list"},
                                               f"exhaustive sweep: pattern {bad[0]} target {bad[2]} after the whole earlier domain")
            agg["violations"].append([-1, 0, case, out.violation.to_json(), -1])
    agg["evaluations"] = pairs
    return {"agg": agg, "coverage": {"exhaustive_input_domain": {
        "patterns_up_to_length": maxk, "targets_up_to_length": maxn, "pairs_checked": pairs, "exhaustive": True,
        "note": "every (pattern, target) pair of the bounded domain, each pattern object reused for all targets in order"}}}


ROUTES = ["fresh", "fresh", "twin", "to_standard", "pickle_before", "copy_before", "from_list"]


def _rand_target(rng, tier):
    lens = [0, 1, 2, 3, 4, 4, 5, 5, 5, 6, 6, 6, 7]
    if tier != "quick":
        lens += [7, 8, 8, 9]
    n = rng.choice(lens)
    r = rng.random()
    if r < 0.08:
        return list(range(n))
    if r < 0.16:
        return list(range(n - 1, -1, -1))
    return common.rand_perm(rng, n)


def gen_case(rng, tier):
    maxk = 4 if tier == "quick" else 5
    big = rng.random() < 0.06  # swarm: a few runs on larger sizes than the bulk
    ndist = rng.choice([1, 1, 2, 2, 3, 4])
    dist = []
    for _ in range(ndist):
        k = rng.choice([0, 1, 2, 2, 3, 3, 3, 4, 4, 5][: (9 if maxk == 4 else 10)])
        if big:
            k = rng.choice([4, 5, 5, 6, 6, 7])
        dist.append(common.rand_perm(rng, k))
    pool = []
    for p in dist:
        for _ in range(rng.choice([1, 2, 2, 3])):
            pool.append({"perm": p, "route": rng.choice(ROUTES)})
    pool = pool[:6]
    initial_pool = [dict(e) for e in pool]
    nops = rng.randint(6, 30) if rng.random() >= 0.03 else rng.randint(80, 200)  # swarm: a few long histories
    ops = []
    live = []
    live_patt = {}
    nid = 0
    def fresh_target():
        if big:
            return common.rand_perm(rng, rng.choice([7, 8, 8, 9]))
        return _rand_target(rng, tier)

    targets = [fresh_target() for _ in range(rng.randint(1, 4))]

    def target():
        if rng.random() < 0.7:
            return rng.choice(targets)
        t = fresh_target()
        targets.append(t)
        return t

    for _ in range(nops):
        r = rng.random()
        pi = rng.randrange(len(pool))
        if r < 0.28:
            if live_patt and rng.random() < 0.45:
                pi = rng.choice(list(live_patt.values()))  # a second generator on an object that has a live one
            t = target()
            op = {"op": "occ_new", "patt": pi, "target": t, "id": nid,
                  "via": rng.choice(["occurrences_in", "occurrences_in", "occurrences_of"])}
            if op["via"] == "occurrences_in" and rng.random() < 0.25:
                ncol = rng.choice([1, 2, 2, 3])
                # colours are arbitrary values: ints, strings, None ("uncoloured")
                alphabet = rng.choice([[0, 1, 2], [0, 1, 2], ["a", "b", None], [None, 0, 1], [None, None, "x"]])[:max(1, ncol)]
                op["colours"] = [[rng.choice(alphabet) for _ in pool[pi]["perm"]], [rng.choice(alphabet) for _ in t]]
            ops.append(op)
            live.append(nid)
            live_patt[nid] = pi
            nid += 1
        elif r < 0.5 and live:
            iid = rng.choice(live)
            rr = rng.random()
            if rr < 0.6:
                ops.append({"op": "iter_step", "id": iid, "k": rng.choice([1, 1, 1, 2, 2, 3, 5, 20])})
            elif rr < 0.85:
                ops.append({"op": "iter_drain", "id": iid})
                live.remove(iid)
            elif rr < 0.93:
                ops.append({"op": "iter_close", "id": iid})
                live.remove(iid)
            else:
                ops.append({"op": "iter_abandon", "id": iid})
                live.remove(iid)
        elif r < 0.85:
            kind = rng.choice(["contains", "avoids", "avoids_set", "in", "count_of", "count_in", "contained_in", "avoided_by",
                               "occurrences_list"])
            if kind in ("contains", "avoids", "avoids_set"):
                k = rng.choice([0, 1, 1, 2, 3])
                op = {"op": kind, "patts": [rng.randrange(len(pool)) for _ in range(k)], "target": target()}
                if kind == "avoids_set":
                    op["container"] = rng.choice(["list", "tuple", "set", "gen", "iter"])
            elif kind in ("contained_in", "avoided_by"):
                op = {"op": kind, "patt": pi, "targets": [target() for _ in range(rng.choice([0, 1, 2, 3]))]}
            else:
                op = {"op": kind, "patt": pi, "target": target()}
            ops.append(op)
            if rng.random() < 0.06:
                # an earlier search with the same object that was interrupted part-way
                ops.insert(len(ops) - 1, {"op": "interrupted_search", "patt": pi, "target": target(),
                                          "at": int(10 ** rng.uniform(0, 2.7)) if rng.random() < 0.94 else {"guided": round(rng.random(), 3)}})
        else:
            rr = rng.random()
            if rr < 0.35:
                ops.append({"op": "memo_flush", "patt": pi})
            elif rr < 0.55:
                ops.append({"op": "memo_prewarm", "patt": pi})
            elif rr < 0.85:
                if len(pool) < 8:
                    ops.append({"op": "clone", "patt": pi, "how": rng.choice(["copy", "deepcopy", "pickle"])})
                    pool.append({"perm": pool[pi]["perm"], "route": "clone"})
            elif rr < 0.9:
                # the pool object is used as the underlying permutation of a mesh-type pattern
                # that is searched for: another way of "using the same pattern object before"
                k = len(pool[pi]["perm"])
                ops.append({"op": "used_in_mesh", "patt": pi, "kind": rng.choice(["mesh", "vinc", "vinc", "cov", "biv"]),
                            "idx": sorted(i for i in range(k + 1) if rng.random() < 0.4),
                            "val": sorted(i for i in range(k + 1) if rng.random() < 0.4),
                            "shading": common.rand_shading(rng, k), "target": target(), "take": rng.choice([None, None, 1, 2])})
            elif rr < 0.95:
                # a pattern obtained from a (possibly used) pool object through a library
                # operation; it joins the pool under the permutation the definition gives
                if len(pool) < 8:
                    how = rng.choice(["complement", "reverse", "inverse", "reverse_complement", "complement", "flip_horizontal"])
                    src = tuple(pool[pi]["perm"])
                    if how in ("complement", "flip_horizontal"):
                        res = RP.complement(src)
                    elif how == "reverse":
                        res = RP.reverse(src)
                    elif how == "inverse":
                        res = RP.inverse(src)
                    else:
                        res = RP.reverse(RP.complement(src))
                    ops.append({"op": "derive", "patt": pi, "how": how})
                    pool.append({"perm": list(res), "route": "derived"})
            else:
                # the pattern object is freed and another pattern (same length) is built where it was
                k = len(pool[pi]["perm"])
                new_perm = common.rand_perm(rng, k)
                ops.append({"op": "recycle", "patt": pi, "perm": new_perm})
                pool[pi] = {"perm": new_perm, "route": pool[pi]["route"]}
    for iid in live:
        if rng.random() < 0.7:
            ops.append({"op": "iter_drain", "id": iid})
    return {"pool": initial_pool, "ops": ops}


def cases(rng, tier):
    yield gen_case(rng, tier)


# --- execution --------------------------------------------------------------------


def _mk_pattern(entry):
    pm = common.lazy_permuta()
    perm, route = tuple(entry["perm"]), entry["route"]
    if route in ("fresh", "twin"):
        return pm.Perm(perm)
    if route == "from_list":
        return pm.Perm(list(perm))
    if route == "to_standard":
        # the shared object kept by the standardisation memo
        return pm.Perm.to_standard([v * 3 + 1 for v in perm])
    if route == "pickle_before":
        return pickle.loads(pickle.dumps(pm.Perm(perm)))
    if route == "copy_before":
        return copy.copy(pm.Perm(perm))
    raise ValueError(route)


def _memo_state(obj):
    try:
        return "warm" if obj._cached_pattern_details is not None else "cold"  # pylint: disable=protected-access
    except AttributeError:
        return "?"


def execute(case):
    pm = common.lazy_permuta()
    hist = histsim.Hist()
    out = hist.out
    try:
        pm.Perm._to_standard.cache_clear()  # pylint: disable=protected-access
    except AttributeError:
        pass
    pool = [_mk_pattern(e) for e in case["pool"]]
    pperm = [tuple(e["perm"]) for e in case["pool"]]
    if any(e["route"] == "to_standard" for e in case["pool"]):
        out.probe("shared_to_standard_object")
    searched = {}  # pool index -> set of targets searched so far
    live_of = {}  # pool index -> live generator ids
    abst = []

    def note_search(pi, target):
        obj = pool[pi]
        st = _memo_state(obj)
        seen = searched.setdefault(pi, set())
        # the same object may sit in the pool twice (shared to_standard object)
        for pj, other in enumerate(pool):
            if other is obj and pj != pi:
                seen |= searched.get(pj, set())
        if st == "warm" and seen and tuple(target) not in seen:
            out.probe("memo_hit_other_target")
            out.nontrivial = True
        seen.add(tuple(target))
        if len(pperm[pi]) == 0:
            out.probe("empty_pattern")
        if len(pperm[pi]) > len(target):
            out.probe("pattern_longer_than_target")
        return st

    def expect(pi, target, colours=None):
        if colours:
            return RP.coloured_occurrences(pperm[pi], tuple(target), colours[0], colours[1])
        return RP.occurrences(pperm[pi], tuple(target))

    for idx, op in enumerate(case["ops"]):
        hist.op_index = idx
        kind = op["op"]
        try:
            if kind == "occ_new":
                pi = op["patt"]
                if pi >= len(pool):
                    continue
                st = note_search(pi, op["target"])
                target = pm.Perm(op["target"])
                col = op.get("colours")
                if col:
                    out.probe("colours")
                if op["via"] == "occurrences_of":
                    make = lambda p=pool[pi], t=target: t.occurrences_of(p)  # noqa: E731
                elif col:
                    make = lambda p=pool[pi], t=target, c=col: p.occurrences_in(t, c[0], c[1])  # noqa: E731
                else:
                    make = lambda p=pool[pi], t=target: p.occurrences_in(t)  # noqa: E731
                nlive = len([i for i in live_of.get(pi, []) if i in hist.iters and not hist.iters[i].exhausted])
                hist.new_iter(op["id"], make, {"patt": pi, "target": op["target"], "colours": col}, conv=tuple)
                live_of.setdefault(pi, []).append(op["id"])
                abst.append(("new", pi, st, nlive))
            elif kind in ("iter_step", "iter_drain"):
                li = hist.iters.get(op["id"])
                if li is None or li.exhausted or li.closed:
                    continue
                pi = li.meta["patt"]
                others = [i for i in live_of.get(pi, []) if i != op["id"] and i in hist.iters
                          and not hist.iters[i].exhausted and not hist.iters[i].closed and hist.iters[i].steps_taken > 0]
                if others and li.steps_taken > 0:
                    out.probe("interleaved_same_object")
                    out.nontrivial = True
                hist.step(op["id"], op["k"] if kind == "iter_step" else 10 ** 9)
                want = expect(pi, li.meta["target"], li.meta["colours"])
                got = li.items
                if li.error is not None:
                    hist.violate("exception", {"op": "occurrences", "type": li.error[0]}, f"generator raised {li.error}")
                elif any(not isinstance(o, tuple) for o in got):
                    hist.violate("wrong_answer", {"op": "occurrences", "what": "type"}, "occurrence is not a tuple")
                elif got != want[: len(got)]:
                    hist.violate("wrong_answer", {"op": "occurrences", "what": "prefix"},
                                 f"pattern {pperm[pi]} in {li.meta['target']}: yielded {got[:6]} but the listing starts {want[:6]}")
                elif li.exhausted and got != want:
                    hist.violate("wrong_answer", {"op": "occurrences", "what": "incomplete"},
                                 f"pattern {pperm[pi]} in {li.meta['target']}: exhausted after {len(got)} of {len(want)} occurrences")
                if got and got[-1] and got[-1][-1] == len(li.meta["target"]) - 1:
                    out.probe("occurrence_ends_at_last_index")
                abst.append(("step", pi, len(others)))
            elif kind == "iter_close":
                hist.close(op["id"])
            elif kind == "iter_abandon":
                hist.abandon(op["id"])
            elif kind in ("contains", "avoids", "avoids_set"):
                pis = [p for p in op["patts"] if p < len(pool)]
                for p in pis:
                    note_search(p, op["target"])
                target = pm.Perm(op["target"])
                objs = [pool[p] for p in pis]
                flags = [bool(expect(p, op["target"])) for p in pis]
                if kind == "contains":
                    got, want = target.contains(*objs), all(flags)
                elif kind == "avoids":
                    got, want = target.avoids(*objs), not any(flags)
                else:
                    cont = op.get("container", "list")
                    if cont == "list":
                        arg = list(objs)
                    elif cont == "tuple":
                        arg = tuple(objs)
                    elif cont == "set":
                        arg = set(objs)
                    elif cont == "gen":
                        arg = (o for o in objs)
                    else:
                        arg = iter(list(objs))
                    got, want = target.avoids_set(arg), not any(flags)
                hist.log.add(kind, idx, bool(got))
                if got is not want:
                    hist.violate("wrong_answer", {"op": kind}, f"{op}: returned {got!r}, the listing says {want}")
                abst.append((kind, tuple(pis)))
            elif kind in ("in", "count_of", "count_in", "occurrences_list"):
                pi = op["patt"]
                if pi >= len(pool):
                    continue
                st = note_search(pi, op["target"])
                target = pm.Perm(op["target"])
                want_list = expect(pi, op["target"])
                if kind == "in":
                    got, want = (pool[pi] in target), bool(want_list)
                elif kind == "count_of":
                    got, want = target.count_occurrences_of(pool[pi]), len(want_list)
                elif kind == "count_in":
                    got, want = pool[pi].count_occurrences_in(target), len(want_list)
                else:
                    got, want = list(pool[pi].occurrences_in(target)), want_list
                hist.log.add(kind, idx, core.canon(got))
                if got != want or type(got) is not type(want):  # noqa: E721
                    hist.violate("wrong_answer", {"op": kind}, f"pattern {pperm[pi]} target {op['target']}: got {got!r}, the listing says {want!r}")
                abst.append((kind, pi, st))
            elif kind in ("contained_in", "avoided_by"):
                pi = op["patt"]
                if pi >= len(pool):
                    continue
                for t in op["targets"]:
                    note_search(pi, t)
                targets = [pm.Perm(t) for t in op["targets"]]
                flags = [bool(expect(pi, t)) for t in op["targets"]]
                if kind == "contained_in":
                    got, want = pool[pi].contained_in(*targets), all(flags)
                else:
                    got, want = pool[pi].avoided_by(*targets), not any(flags)
                hist.log.add(kind, idx, bool(got))
                if got is not want:
                    hist.violate("wrong_answer", {"op": kind}, f"{op}: returned {got!r}, the listing says {want}")
                abst.append((kind, pi))
            elif kind == "interrupted_search":
                pi = op["patt"]
                if pi >= len(pool):
                    continue
                import os  # pylint: disable=import-outside-toplevel

                target = pm.Perm(op["target"])
                pref = [os.path.join(core.repo_dir(), "permuta") + os.sep]
                at = op["at"]
                if isinstance(at, dict):
                    # per-object state is invisible to the process-wide fingerprint: hang the pool
                    # where the dry run can see it
                    import permuta  # pylint: disable=import-outside-toplevel

                    permuta._verif_pool = [getattr(o, "__dict__", None) for o in pool]  # pylint: disable=protected-access
                    at = histsim.guided_interrupt_at(lambda p=pool[pi], t=target: list(p.occurrences_in(t)), pref, at["guided"])
                    del permuta._verif_pool
                    out.probe("guided_interrupt" if at else "guided_interrupt_no_state_change")
                status, _r, _n = histsim.run_interruptible(lambda p=pool[pi], t=target: list(p.occurrences_in(t)), at or 10 ** 9, pref)
                if status == "interrupted":
                    out.fault("interrupted_call")
                    out.probe("interrupted_call")
                    searched.setdefault(pi, set()).add(tuple(op["target"]))
                hist.log.add("interrupted_search", pi, status)
            elif kind == "memo_flush":
                pi = op["patt"]
                if pi < len(pool) and hasattr(pool[pi], "_cached_pattern_details"):
                    # memo loss: the object gets back what a freshly constructed equal object has
                    # in that attribute (None on the pinned tree; a sentinel after a refactoring);
                    # a mutable placeholder would be aliased, so then nothing is done
                    cold = getattr(pm.Perm(pperm[pi]), "_cached_pattern_details", None)
                    if cold is None or type(cold) in (object, int, bool, str, tuple, frozenset):
                        pool[pi]._cached_pattern_details = cold  # pylint: disable=protected-access
                        out.fault("memo_flush")
                        out.probe("memo_flush")
                    hist.log.add("memo_flush", pi)
            elif kind == "memo_prewarm":
                pi = op["patt"]
                if pi < len(pool) and hasattr(pool[pi], "_pattern_details"):
                    pool[pi]._pattern_details()  # pylint: disable=protected-access
                    out.fault("memo_prewarm")
                    hist.log.add("memo_prewarm", pi)
            elif kind == "used_in_mesh":
                pi = op["patt"]
                if pi >= len(pool):
                    continue
                from permuta.patterns.bivincularpatt import BivincularPatt, CovincularPatt, VincularPatt  # pylint: disable=import-outside-toplevel

                n = len(pperm[pi])
                idx = [i for i in op["idx"] if i <= n]
                val = [i for i in op["val"] if i <= n]
                if op["kind"] == "mesh":
                    mp_ = pm.MeshPatt(pool[pi], [tuple(c) for c in op["shading"] if c[0] <= n and c[1] <= n])
                elif op["kind"] == "vinc":
                    mp_ = VincularPatt(pool[pi], idx)
                elif op["kind"] == "cov":
                    mp_ = CovincularPatt(pool[pi], val)
                else:
                    mp_ = BivincularPatt(pool[pi], idx, val)
                gen = mp_.occurrences_in(pm.Perm(op["target"]))
                taken = 0
                for _occ in gen:  # what it finds is another property's business
                    taken += 1
                    if op["take"] is not None and taken >= op["take"]:
                        break
                searched.setdefault(pi, set()).add(tuple(op["target"]))
                out.fault("used_inside_mesh_pattern")
                out.probe("used_inside_mesh_pattern")
                hist.log.add("used_in_mesh", pi, op["kind"])
            elif kind == "derive":
                pi = op["patt"]
                if pi >= len(pool):
                    continue
                if _memo_state(pool[pi]) == "warm":
                    out.probe("derived_from_used_object")
                new = getattr(pool[pi], op["how"])()
                want = {"complement": RP.complement, "flip_horizontal": RP.complement, "reverse": RP.reverse, "inverse": RP.inverse,
                        "reverse_complement": lambda t: RP.reverse(RP.complement(t))}[op["how"]](pperm[pi])
                if tuple(new) != want:
                    # the symmetry itself is another property's business; keep the history consistent
                    new = pm.Perm(want)
                pool.append(new)
                pperm.append(want)
                out.fault("derived_object")
                hist.log.add("derive", pi, op["how"])
            elif kind == "recycle":
                pi = op["patt"]
                if pi >= len(pool):
                    continue
                if any(hist.iters[i].meta["patt"] == pi and not hist.iters[i].exhausted and not hist.iters[i].closed
                       for i in live_of.get(pi, []) if i in hist.iters):
                    continue  # a live generator still refers to the object: it cannot be freed
                old_id = id(pool[pi])
                shared = sum(1 for o in pool if o is pool[pi]) > 1
                if not shared:
                    # a searched object is kept alive by the reference cycle of the recursive
                    # closure of its last search until the collector runs
                    gc.collect()
                if not shared and sys.getrefcount(pool[pi]) > 2:
                    shared = True  # held by something else (the standardisation memo, a mesh pattern built on it)
                    out.probe("recycled_object_still_referenced")
                pool[pi] = None
                new_tuple = tuple(op["perm"])
                held = None
                if not shared:
                    # the freed block sits somewhere down the allocator's free list: dig for it
                    _addr, held = allocsim.aim(pm.Perm, len(new_tuple), {old_id})
                if held is not None:
                    held[-1] = None
                new = pm.Perm(new_tuple)
                del held
                if id(new) == old_id:
                    out.probe("pattern_object_address_reused")
                pool[pi] = new
                pperm[pi] = tuple(op["perm"])
                searched.pop(pi, None)
                out.fault("recycle_pattern_object")
                hist.log.add("recycle", pi)
            elif kind == "clone":
                pi = op["patt"]
                if pi >= len(pool):
                    continue
                if _memo_state(pool[pi]) == "warm":
                    out.probe("copy_after_use")
                if op["how"] == "copy":
                    new = copy.copy(pool[pi])
                elif op["how"] == "deepcopy":
                    new = copy.deepcopy(pool[pi])
                else:
                    new = pickle.loads(pickle.dumps(pool[pi]))
                pool.append(new)
                pperm.append(pperm[pi])
                out.fault("object_copy")
                hist.log.add("clone", pi, op["how"])
        except Exception as exc:  # pylint: disable=broad-except
            hist.violate("exception", {"op": kind, "type": type(exc).__name__}, f"{op}: {type(exc).__name__}: {exc}")
        if hist.violations:
            break
    out.abstraction = str(hash(tuple(abst)))
    return hist.finish()


def shrink_targets(case):  # pylint: disable=unused-argument
    return [["ops"]]


def simplify(case):
    for i, op in enumerate(case["ops"]):
        for field in ("target",):
            t = op.get(field)
            if isinstance(t, list) and t:
                # delete one element of the target and re-standardise
                for j in range(len(t)):
                    c = copy.deepcopy(case)
                    nt = t[:j] + t[j + 1:]
                    c["ops"][i][field] = list(RP.std(nt))
                    if "colours" in c["ops"][i] and c["ops"][i]["colours"]:
                        col = c["ops"][i]["colours"]
                        c["ops"][i]["colours"] = [col[0], col[1][:j] + col[1][j + 1:]]
                    yield c
                    break
        if op.get("colours"):
            c = copy.deepcopy(case)
            c["ops"][i]["colours"] = None
            yield c
    for i, e in enumerate(case["pool"]):
        if e["route"] != "fresh":
            c = copy.deepcopy(case)
            c["pool"][i]["route"] = "fresh"
            yield c
