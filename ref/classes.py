"""Brute-force reference for permutation classes Av(basis).

A basis is a tuple of items; an item is ("c", patt) for a classical pattern or
("m", patt, shading) for a mesh pattern with shading a sorted tuple of cells.
Nothing here imports permuta.
"""
from itertools import permutations

from . import patterns as P

_LEVELS = {}
_MAX_MEMO = 4000


def norm_basis(basis):
    """Canonical hashable form (order and duplicates removed)."""
    items = set()
    for it in basis:
        if it[0] == "c":
            items.add(("c", tuple(it[1])))
        else:
            items.add(("m", tuple(it[1]), tuple(sorted(tuple(c) for c in it[2]))))
    return tuple(sorted(items))


def is_classical(basis):
    return all(it[0] == "c" for it in basis)


def item_contained(perm, item):
    if item[0] == "c":
        return P.contains(perm, item[1])
    return P.mesh_contains(perm, item[1], item[2])


def avoids_basis(perm, basis):
    return not any(item_contained(perm, it) for it in basis)


def _naive_level(basis, n):
    return [p for p in permutations(range(n)) if avoids_basis(p, basis)]


def naive_level(basis, n):
    return frozenset(_naive_level(norm_basis(basis), n))


def level(basis, n):
    """frozenset of the permutations of length n avoiding every basis item."""
    basis = norm_basis(basis)
    key = (basis, n)
    res = _LEVELS.get(key)
    if res is not None:
        return res
    if n < 0:
        res = frozenset()
    elif n == 0 or not is_classical(basis):
        res = frozenset(_naive_level(basis, n))
    else:
        # classical classes are closed downward: every avoider of length n is an
        # avoider of length n-1 with a new maximum inserted somewhere
        prev = level(basis, n - 1)
        cand = set()
        for p in prev:
            for i in range(n):
                cand.add(p[:i] + (n - 1,) + p[i:])
        res = frozenset(q for q in cand if avoids_basis(q, basis))
    if len(_LEVELS) > _MAX_MEMO:
        _LEVELS.clear()
    _LEVELS[key] = res
    return res


def count(basis, n):
    return len(level(basis, n))


def enumeration(basis, n):
    return [count(basis, i) for i in range(n + 1)]


def member(perm, basis):
    return avoids_basis(tuple(perm), norm_basis(basis))


def has_gap(basis, n):
    """Some level <= n is empty while a later level <= n is not."""
    enum = enumeration(basis, n)
    seen_empty = False
    for c in enum:
        if c == 0:
            seen_empty = True
        elif seen_empty:
            return True
    return False


def first_empty_level(basis, n):
    for i in range(n + 1):
        if count(basis, i) == 0:
            return i
    return None


def subclass_counterexample(a_basis, b_basis, upto):
    """Smallest permutation (length <= upto) in Av(a) but not in Av(b), or None."""
    for n in range(upto + 1):
        diff = level(a_basis, n) - level(b_basis, n)
        if diff:
            return min(diff)
    return None


def max_len(basis):
    return max(len(it[1]) for it in basis)


def self_check():
    """Pin the naive definition with known sequences and the incremental
    generator with the naive one."""
    catalan = [1, 1, 2, 5, 14, 42, 132]
    for patt in [(0, 1, 2), (0, 2, 1), (1, 0, 2), (1, 2, 0), (2, 0, 1), (2, 1, 0)]:
        b = (("c", patt),)
        assert [len(_naive_level(b, n)) for n in range(7)] == catalan, patt
        assert enumeration(b, 6) == catalan
    b = (("c", (0, 1, 2)), ("c", (0, 2, 1)))
    assert [len(_naive_level(norm_basis(b), n)) for n in range(7)] == [1, 1, 2, 4, 8, 16, 32]
    b = (("c", (0, 1, 2)), ("c", (2, 0, 1)))  # C(n,2)+1
    assert enumeration(b, 6) == [1, 1, 2, 4, 7, 11, 16]
    b = (("c", (0, 1, 2)), ("c", (1, 0)))
    assert enumeration(b, 4) == [1, 1, 1, 0, 0]
    # mesh: a classical pattern spelled as mesh gives the same class
    b = (("m", (1, 2, 0), ()),)
    assert [len(_naive_level(b, n)) for n in range(6)] == catalan[:6]
    # the single point fully shaded: only the one-point permutation contains it
    b = (("m", (0,), ((0, 0), (0, 1), (1, 0), (1, 1))),)
    assert [len(_naive_level(b, n)) for n in range(5)] == [1, 0, 2, 6, 24]
    # vincular 0-1 adjacent (column 1 shaded) : avoiders of an ascent = decreasing
    b = (("m", (0, 1), ((1, 0), (1, 1), (1, 2))),)
    assert [len(_naive_level(b, n)) for n in range(6)] == [1, 1, 1, 1, 1, 1]
    # Baxter numbers through the two vincular patterns 1-30-2 / 2-03-1
    b = (("m", (1, 3, 0, 2), ((2, 0), (2, 1), (2, 2), (2, 3), (2, 4))),
         ("m", (2, 0, 3, 1), ((2, 0), (2, 1), (2, 2), (2, 3), (2, 4))))
    assert [len(_naive_level(norm_basis(b), n)) for n in range(6)] == [1, 1, 2, 6, 22, 92]
    for basis in [
        (("c", (0, 2, 1, 3)), ("c", (2, 1, 0))),
        (("c", (1, 0)),),
        (("c", (0,)),),
        (("c", (3, 1, 2, 0)), ("c", (0, 1, 2, 3)), ("c", (1, 0, 2))),
    ]:
        nb = norm_basis(basis)
        for n in range(7):
            assert level(nb, n) == frozenset(_naive_level(nb, n)), (basis, n)
    return True
