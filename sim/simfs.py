"""In-memory file system with a fault plan, standing in for the builtin `open`,
`pathlib.Path` and `os` inside the modules under simulation.

Model: a POSIX-like tree of directories and text files at the granularity the
code under test uses (whole-file text writes, read/readline).  Every call that
reaches the file system is an *I/O call* with a running index; the fault plan
maps call indices to faults:

  error   raise OSError(errno) instead of performing the call (open / mkdir /
          read / write); for a write, after `arg` characters have been written
          (short write followed by the error)
  crash   the process dies at this call (SimCrash, a BaseException): before the
          call, or for a write after `arg` characters reached the file (torn
          write).  Once crashed, every later file operation of the dying
          "process" (e.g. the close in a with-block being unwound) is ignored.

Nothing is ever synced by the code under test, so the durable content of a file
written since the last power-loss point is uncertain: `power_loss(choices)`
resolves each such file to lost / empty / truncated / old content / kept.
"""
import errno
import io
import posixpath

BUFFER_SIZE = 8192

ERRNOS = {"EACCES": errno.EACCES, "ENOENT": errno.ENOENT, "ENOSPC": errno.ENOSPC, "EIO": errno.EIO,
          "EROFS": errno.EROFS, "EMFILE": errno.EMFILE}


class SimCrash(BaseException):
    """The simulated process dies here."""


class SimfsUnsupported(Exception):
    """The code under test used a file-system API this model does not cover."""


class SimFS:
    def __init__(self, fault_plan=None):
        self.files = {}  # abs path -> str content
        self.dirs = {"/"}
        self.cwd = "/"
        self.io_index = 0
        self.trace = []  # (index, kind, path, size)
        self.faults = {int(f["io"]): f for f in (fault_plan or [])}
        self.fired = []
        self.crashed = False
        self.dirty = {}  # path -> content before the first unsynced modification (None = did not exist)
        self.marker = None  # free-form tag of the current operation, copied into the trace
        self.yield_hook = None
        self.fds = {}
        self.next_fd = 1000
        self.opened_for_writing = []

    # -- helpers -------------------------------------------------------------
    def abspath(self, path):
        path = str(path)
        if not path.startswith("/"):
            path = posixpath.join(self.cwd, path)
        return posixpath.normpath(path)

    def _touch_dirty(self, path):
        if path not in self.dirty:
            self.dirty[path] = self.files.get(path)

    def io(self, kind, path, size=0):
        """Account one I/O call; returns the fault to apply or None."""
        if self.crashed:
            return {"kind": "dead"}
        if self.yield_hook is not None:
            self.yield_hook(kind, path)  # concurrent tasks: every I/O call is a scheduling point
        idx = self.io_index
        self.io_index += 1
        self.trace.append((idx, kind, path, size, self.marker))
        fault = self.faults.get(idx)
        if fault is None:
            return None
        if fault.get("on") and fault["on"] != kind:
            return None
        self.fired.append(dict(fault, at=kind, path=path))
        if fault["kind"] == "crash" and kind != "write":
            self.crashed = True
            raise SimCrash(f"crash at io #{idx} ({kind} {path})")
        if fault["kind"] == "error" and kind != "write":
            code = ERRNOS.get(fault.get("errno", "EIO"), errno.EIO)
            raise OSError(code, f"injected {fault.get('errno', 'EIO')}", path)
        return fault

    # -- namespace operations --------------------------------------------------
    def is_file(self, path):
        p = self.abspath(path)
        if self.io("stat", p) is not None and self.crashed:
            return False
        return p in self.files

    def is_dir(self, path):
        p = self.abspath(path)
        self.io("stat", p)
        return p in self.dirs

    def exists(self, path):
        p = self.abspath(path)
        self.io("stat", p)
        return p in self.files or p in self.dirs

    def mkdir(self, path, parents=False, exist_ok=False, mode=0o777):  # pylint: disable=unused-argument
        p = self.abspath(path)
        if self.io("mkdir", p) is not None and self.crashed:
            return
        if p in self.dirs:
            if exist_ok:
                return
            raise FileExistsError(errno.EEXIST, "File exists", p)
        if p in self.files:
            raise FileExistsError(errno.EEXIST, "File exists", p)
        parent = posixpath.dirname(p)
        if parent not in self.dirs:
            if not parents:
                raise FileNotFoundError(errno.ENOENT, "No such file or directory", p)
            self.mkdir(parent, parents=True, exist_ok=True)
        self.dirs.add(p)

    def listdir(self, path):
        p = self.abspath(path)
        self.io("listdir", p)
        if p not in self.dirs:
            raise FileNotFoundError(errno.ENOENT, "No such file or directory", p)
        pref = p.rstrip("/") + "/"
        names = set()
        for q in list(self.files) + list(self.dirs):
            if q.startswith(pref) and q != p:
                names.add(q[len(pref):].split("/")[0])
        return sorted(names)

    def remove(self, path):
        p = self.abspath(path)
        if self.io("unlink", p) is not None and self.crashed:
            return
        if p not in self.files:
            raise FileNotFoundError(errno.ENOENT, "No such file or directory", p)
        self._touch_dirty(p)
        del self.files[p]

    def rename(self, src, dst):
        s, d = self.abspath(src), self.abspath(dst)
        if self.io("rename", s) is not None and self.crashed:
            return
        if s not in self.files:
            raise FileNotFoundError(errno.ENOENT, "No such file or directory", s)
        self._touch_dirty(s)
        self._touch_dirty(d)
        self.files[d] = self.files.pop(s)

    def fsync(self, fd):
        """Flush the file and make its current content durable (a later power loss keeps it)."""
        f = self.fds.get(fd)
        if f is None:
            raise OSError(errno.EBADF, "Bad file descriptor")
        if self.io("fsync", f.path) is not None and self.crashed:
            return
        f._flush()  # pylint: disable=protected-access
        self.dirty.pop(f.path, None)

    def chdir(self, path):
        p = self.abspath(path)
        if p not in self.dirs:
            raise FileNotFoundError(errno.ENOENT, "No such file or directory", p)
        self.cwd = p

    # -- files --------------------------------------------------------------------
    def open(self, path, mode="r", *args, **kwargs):  # pylint: disable=unused-argument
        p = self.abspath(path)
        binary = "b" in mode
        m = mode.replace("b", "").replace("t", "")
        if m not in ("r", "w", "a", "x", "r+", "w+", "a+", "x+"):
            raise SimfsUnsupported(f"open mode {mode!r}")
        flt = self.io("open", p)
        if flt is not None and self.crashed:
            return _DeadFile()
        reading = m in ("r", "r+", "w+", "a+", "x+")
        writing = m != "r"
        if writing:
            self.opened_for_writing.append(p)
        if m[0] == "r":
            if p in self.dirs:
                raise IsADirectoryError(errno.EISDIR, "Is a directory", p)
            if p not in self.files:
                raise FileNotFoundError(errno.ENOENT, "No such file or directory", p)
        else:
            if posixpath.dirname(p) not in self.dirs:
                raise FileNotFoundError(errno.ENOENT, "No such file or directory", p)
            if p in self.dirs:
                raise IsADirectoryError(errno.EISDIR, "Is a directory", p)
            if m[0] == "x" and p in self.files:
                raise FileExistsError(errno.EEXIST, "File exists", p)
            if m[0] in ("w", "x") or p not in self.files:
                self._touch_dirty(p)
                if m[0] in ("w", "x"):
                    self.files[p] = ""
                else:
                    self.files.setdefault(p, "")
        return SimFile(self, p, reading, writing, append=(m[0] == "a"), binary=binary)

    # -- power loss --------------------------------------------------------------
    def power_loss(self, choices):
        """Resolve every file modified since the last power-loss point.
        choices: list of (kind, fraction) consumed in sorted path order; kind in
        kept / lost / empty / truncated / old."""
        outcome = {}
        for i, p in enumerate(sorted(self.dirty)):
            kind, frac = choices[i % len(choices)] if choices else ("kept", 1.0)
            old = self.dirty[p]
            cur = self.files.get(p)
            if kind == "kept":
                pass
            elif kind == "old":
                if old is None:
                    self.files.pop(p, None)
                else:
                    self.files[p] = old
            elif kind == "lost":
                self.files.pop(p, None)
            elif kind == "empty":
                if cur is not None:
                    self.files[p] = ""
            elif kind == "truncated":
                if cur is not None:
                    self.files[p] = cur[: int(len(cur) * frac)]
            outcome[p] = kind
        self.dirty = {}
        self.crashed = False
        return outcome

    def restart(self):
        """The process is gone, a new one starts; the files are what they are."""
        self.crashed = False


class _DeadFile:
    """File handle of a process that already crashed: everything is ignored."""

    closed = True

    def write(self, data):
        return len(data)

    def read(self, *a):
        return ""

    def readline(self, *a):
        return ""

    def readlines(self, *a):
        return []

    def __iter__(self):
        return iter(())

    def close(self):
        pass

    def flush(self):
        pass

    def __enter__(self):
        return self

    def __exit__(self, *exc):
        return False


class SimFile:
    def __init__(self, fs, path, reading, writing, append, binary):
        self.fs = fs
        self.path = path
        self.reading = reading
        self.writing = writing
        self.append = append
        self.binary = binary
        self.pos = len(fs.files.get(path, "")) if append else 0
        self.closed = False
        self.name = path
        self.buf = []
        self.buffered = 0

    def _content(self):
        return self.fs.files.get(self.path, "")

    def _conv_in(self, data):
        if self.binary:
            if not isinstance(data, (bytes, bytearray)):
                raise TypeError("a bytes-like object is required")
            return bytes(data).decode("latin-1")
        if not isinstance(data, str):
            raise TypeError("write() argument must be str")
        return data

    def _conv_out(self, text):
        return text.encode("latin-1") if self.binary else text

    def write(self, data):
        if self.closed:
            raise ValueError("I/O operation on closed file.")
        if not self.writing:
            raise io.UnsupportedOperation("not writable")
        text = self._conv_in(data)
        flt = self.fs.io("write", self.path, len(text))
        if flt is not None and flt.get("kind") == "dead":
            return len(data)
        part = text
        if flt is not None:
            n = int(len(text) * flt.get("frac", 0.5)) if "frac" in flt else int(flt.get("arg", 0))
            part = text[: max(0, min(len(text), n))]
        if flt is None:
            # buffered like a real text file: reaches the file system at
            # flush / close or when the buffer is full
            self.buf.append(part)
            self.buffered += len(part)
            if self.buffered >= BUFFER_SIZE:
                self._flush()
            return len(data)
        self.buf.append(part)
        self._flush()
        if flt["kind"] == "crash":
            self.fs.crashed = True
            raise SimCrash(f"crash during write to {self.path} after {len(part)} of {len(text)} characters")
        code = ERRNOS.get(flt.get("errno", "ENOSPC"), errno.ENOSPC)
        raise OSError(code, f"injected {flt.get('errno', 'ENOSPC')} after {len(part)} characters", self.path)

    def _flush(self):
        if not self.buf:
            return
        part = "".join(self.buf)
        self.buf = []
        self.buffered = 0
        self.fs._touch_dirty(self.path)  # pylint: disable=protected-access
        cur = self._content()
        if self.append:
            new = cur + part
            self.pos = len(new)
        else:
            new = cur[: self.pos] + part + cur[self.pos + len(part):]
            self.pos += len(part)
        self.fs.files[self.path] = new

    def writelines(self, lines):
        for line in lines:
            self.write(line)

    def _read_fault(self):
        if self.closed:
            raise ValueError("I/O operation on closed file.")
        if not self.reading:
            raise io.UnsupportedOperation("not readable")
        self._flush()
        flt = self.fs.io("read", self.path)
        return flt is not None and flt.get("kind") == "dead"

    def read(self, size=-1):
        if self._read_fault():
            return self._conv_out("")
        cur = self._content()
        if size is None or size < 0:
            res = cur[self.pos:]
        else:
            res = cur[self.pos: self.pos + size]
        self.pos += len(res)
        return self._conv_out(res)

    def readline(self, size=-1):
        if self._read_fault():
            return self._conv_out("")
        cur = self._content()
        end = cur.find("\n", self.pos)
        end = len(cur) if end < 0 else end + 1
        if size is not None and size >= 0:
            end = min(end, self.pos + size)
        res = cur[self.pos:end]
        self.pos = end
        return self._conv_out(res)

    def readlines(self, hint=-1):  # pylint: disable=unused-argument
        lines = []
        while True:
            line = self.readline()
            if not line:
                return lines
            lines.append(line)

    def __iter__(self):
        return iter(self.readlines())

    def seek(self, pos, whence=0):
        self._flush()
        if whence == 0:
            self.pos = pos
        elif whence == 1:
            self.pos += pos
        else:
            self.pos = len(self._content()) + pos
        return self.pos

    def tell(self):
        return self.pos

    def truncate(self, size=None):
        self._flush()
        size = self.pos if size is None else size
        self.fs._touch_dirty(self.path)  # pylint: disable=protected-access
        self.fs.files[self.path] = self._content()[:size]
        return size

    def flush(self):
        if not self.fs.crashed:
            self._flush()

    def fileno(self):
        fd = self.fs.next_fd
        self.fs.next_fd += 1
        self.fs.fds[fd] = self
        return fd

    def close(self):
        if not self.closed:
            self.closed = True
            flt = self.fs.io("close", self.path)  # a crash here loses what is still buffered
            if flt is None:
                self._flush()

    def __enter__(self):
        return self

    def __exit__(self, *exc):
        self.close()
        return False


def make_path_class(fs):
    """A pathlib.Path look-alike bound to the simulated file system."""

    class SimPath:
        def __init__(self, *parts):
            self._p = posixpath.join(*[str(x) for x in parts]) if parts else "."

        def __truediv__(self, other):
            return SimPath(self._p, str(other))

        def __rtruediv__(self, other):
            return SimPath(str(other), self._p)

        def __str__(self):
            return self._p

        def __fspath__(self):
            return self._p

        def __repr__(self):
            return f"SimPath({self._p!r})"

        def __eq__(self, other):
            return isinstance(other, SimPath) and fs.abspath(self._p) == fs.abspath(other._p)

        def __hash__(self):
            return hash(fs.abspath(self._p))

        @property
        def parent(self):
            return SimPath(posixpath.dirname(self._p) or ".")

        @property
        def name(self):
            return posixpath.basename(self._p)

        @property
        def suffix(self):
            return posixpath.splitext(self._p)[1]

        @property
        def stem(self):
            return posixpath.splitext(posixpath.basename(self._p))[0]

        def with_suffix(self, suffix):
            return SimPath(posixpath.splitext(self._p)[0] + suffix)

        def with_name(self, name):
            return SimPath(posixpath.join(posixpath.dirname(self._p), name))

        def joinpath(self, *others):
            return SimPath(self._p, *others)

        def resolve(self, strict=False):  # pylint: disable=unused-argument
            return SimPath(fs.abspath(self._p))

        def absolute(self):
            return SimPath(fs.abspath(self._p))

        def mkdir(self, mode=0o777, parents=False, exist_ok=False):
            fs.mkdir(self._p, parents=parents, exist_ok=exist_ok, mode=mode)

        def is_file(self):
            return fs.is_file(self._p)

        def is_dir(self):
            return fs.is_dir(self._p)

        def exists(self):
            return fs.exists(self._p)

        def open(self, mode="r", *a, **k):
            return fs.open(self._p, mode, *a, **k)

        def read_text(self, *a, **k):  # pylint: disable=unused-argument
            with fs.open(self._p, "r") as f:
                return f.read()

        def write_text(self, data, *a, **k):  # pylint: disable=unused-argument
            with fs.open(self._p, "w") as f:
                return f.write(data)

        def unlink(self, missing_ok=False):
            try:
                fs.remove(self._p)
            except FileNotFoundError:
                if not missing_ok:
                    raise

        def rename(self, target):
            fs.rename(self._p, str(target))
            return SimPath(str(target))

        replace = rename

        def iterdir(self):
            return iter(SimPath(self._p, n) for n in fs.listdir(self._p))

        def touch(self, exist_ok=True):  # pylint: disable=unused-argument
            with fs.open(self._p, "a"):
                pass

    return SimPath


class _DirEntry:
    def __init__(self, fs, directory, name):
        self.name = name
        self.path = posixpath.join(directory, name)
        self._fs = fs

    def is_file(self):
        return self._fs.abspath(self.path) in self._fs.files

    def is_dir(self):
        return self._fs.abspath(self.path) in self._fs.dirs


class _ScandirCtx:
    def __init__(self, entries):
        self._e = entries

    def __enter__(self):
        return iter(self._e)

    def __exit__(self, *exc):
        return False

    def __iter__(self):
        return iter(self._e)


def make_os_shim(fs, real_os):
    """Stands in for the `os` module inside the modules under simulation."""

    pure_path = {"join", "dirname", "basename", "split", "splitext", "splitdrive", "normpath", "normcase", "isabs",
                 "commonpath", "commonprefix", "sep", "altsep", "extsep", "pardir", "curdir", "pathsep", "defpath",
                 "devnull", "expanduser", "expandvars", "supports_unicode_filenames"}

    class _PathShim:
        def __getattr__(self, name):
            if name in pure_path:
                return getattr(posixpath, name)
            if not hasattr(posixpath, name):
                raise AttributeError(name)  # introspection (hasattr / getattr with default) behaves as on the real module
            # anything else would look at the real file system
            raise SimfsUnsupported(f"os.path.{name}")

        @staticmethod
        def relpath(p, start=None):
            return posixpath.relpath(fs.abspath(p), fs.abspath(start if start is not None else "."))

        @staticmethod
        def samefile(a, b):
            if not fs.exists(a) or not fs.exists(b):
                raise FileNotFoundError(errno.ENOENT, "No such file or directory", str(a))
            return fs.abspath(a) == fs.abspath(b)

        @staticmethod
        def exists(p):
            return fs.exists(p)

        @staticmethod
        def isfile(p):
            return fs.is_file(p)

        @staticmethod
        def isdir(p):
            return fs.is_dir(p)

        @staticmethod
        def abspath(p):
            return fs.abspath(p)

        @staticmethod
        def getsize(p):
            return len(fs.files[fs.abspath(p)])

        @staticmethod
        def realpath(p, **_k):
            return fs.abspath(p)

        @staticmethod
        def islink(_p):
            return False

        @staticmethod
        def lexists(p):
            return fs.exists(p)

    pure_os = {"fsdecode", "fsencode", "PathLike", "error", "environ", "getenv", "name", "sep", "altsep", "curdir",
               "pardir", "extsep", "pathsep", "linesep", "devnull", "defpath", "strerror", "cpu_count", "urandom",
               "getuid", "geteuid", "getgid", "getegid", "getlogin", "uname", "umask", "get_terminal_size", "times",
               "getppid", "putenv", "unsetenv", "get_exec_path", "sched_getaffinity", "supports_fd",
               "supports_dir_fd", "supports_follow_symlinks", "supports_effective_ids", "supports_bytes_environ"}

    class _OsShim:
        path = _PathShim()
        sep = "/"
        linesep = "\n"

        def __getattr__(self, name):
            # constants and functions that never look at the file system; everything else that
            # is not modelled below is a harness limitation (it must not reach the real disk)
            if name in pure_os or name.isupper() or not hasattr(real_os, name):
                return getattr(real_os, name)
            raise SimfsUnsupported(f"os.{name}")

        @staticmethod
        def getpid():
            return 4242  # part of many temporary file names: the same in every process

        @staticmethod
        def access(path, mode, **_k):  # pylint: disable=unused-argument
            # no permission model (as for root on a real disk): whatever exists is accessible
            return fs.exists(path)

        @staticmethod
        def fdopen(fd, *a, **k):  # pylint: disable=unused-argument
            f = fs.fds.get(fd)
            if f is None:
                raise OSError(errno.EBADF, "Bad file descriptor")
            return f

        @staticmethod
        def close(fd):
            f = fs.fds.pop(fd, None)
            if f is None:
                raise OSError(errno.EBADF, "Bad file descriptor")
            f.close()

        @staticmethod
        def fsync(fd):
            fs.fsync(fd)

        fdatasync = fsync

        @staticmethod
        def scandir(path="."):
            return _ScandirCtx([_DirEntry(fs, path, n) for n in fs.listdir(path)])

        @staticmethod
        def listdir(path="."):
            return fs.listdir(path)

        @staticmethod
        def makedirs(path, mode=0o777, exist_ok=False):
            fs.mkdir(path, parents=True, exist_ok=exist_ok, mode=mode)

        @staticmethod
        def mkdir(path, mode=0o777):
            fs.mkdir(path, mode=mode)

        @staticmethod
        def remove(path):
            fs.remove(path)

        unlink = remove

        @staticmethod
        def rename(src, dst):
            fs.rename(src, dst)

        replace = rename

        @staticmethod
        def getcwd():
            return fs.cwd

        @staticmethod
        def chdir(path):
            fs.chdir(path)

        @staticmethod
        def fspath(p):
            return str(p)

    return _OsShim()


def make_shutil_shim(fs):
    class _ShutilShim:
        def __getattr__(self, name):
            import shutil  # pylint: disable=import-outside-toplevel

            if not hasattr(shutil, name):
                raise AttributeError(name)
            raise SimfsUnsupported(f"shutil.{name}")

        @staticmethod
        def _need(*paths):
            for p in paths:
                if not fs.exists(p):
                    raise FileNotFoundError(errno.ENOENT, "No such file or directory", str(p))

        def copymode(self, src, dst, **_k):
            self._need(src, dst)  # no permission model: nothing to copy

        copystat = copymode

        def copyfile(self, src, dst, **_k):
            with fs.open(src, "r") as f:
                data = f.read()
            with fs.open(dst, "w") as g:
                g.write(data)
            return dst

        def copy(self, src, dst, **_k):
            if fs.is_dir(dst):
                dst = posixpath.join(str(dst), posixpath.basename(str(src)))
            return self.copyfile(src, dst)

        copy2 = copy

        @staticmethod
        def move(src, dst, **_k):
            fs.rename(src, dst)
            return dst

    return _ShutilShim()


def make_tempfile_shim(fs):
    class _NamedTemp:
        """What NamedTemporaryFile returns: the file plus .name and delete-on-close."""

        def __init__(self, f, name, delete):
            self.__dict__.update(file=f, name=name, delete=delete)

        def __getattr__(self, attr):
            return getattr(self.file, attr)

        def __iter__(self):
            return iter(self.file)

        def close(self):
            self.file.close()
            if self.delete and fs.exists(self.name):
                fs.remove(self.name)

        def __enter__(self):
            return self

        def __exit__(self, *exc):
            self.close()
            return False

    class _TempfileShim:
        def __getattr__(self, name):
            import tempfile  # pylint: disable=import-outside-toplevel

            if not hasattr(tempfile, name):
                raise AttributeError(name)
            raise SimfsUnsupported(f"tempfile.{name}")

        @staticmethod
        def gettempdir():
            if not fs.is_dir("/tmp"):
                fs.mkdir("/tmp", parents=True, exist_ok=True)
            return "/tmp"

        def _unique(self, suffix, prefix, dir):  # pylint: disable=redefined-builtin
            base = str(dir) if dir is not None else self.gettempdir()
            fs.tmp_counter = getattr(fs, "tmp_counter", 0) + 1
            return posixpath.join(fs.abspath(base), f"{prefix if prefix is not None else 'tmp'}{fs.tmp_counter:08x}{suffix or ''}")

        def mkstemp(self, suffix=None, prefix=None, dir=None, text=False):  # pylint: disable=redefined-builtin,unused-argument
            path = self._unique(suffix, prefix, dir)
            f = fs.open(path, "x+")
            return f.fileno(), path

        def NamedTemporaryFile(self, mode="w+b", buffering=-1, encoding=None, newline=None, suffix=None, prefix=None,  # noqa: N802  pylint: disable=invalid-name,unused-argument,too-many-arguments
                               dir=None, delete=True, **_k):  # pylint: disable=redefined-builtin
            path = self._unique(suffix, prefix, dir)
            m = mode.replace("w", "x", 1) if "w" in mode else mode
            return _NamedTemp(fs.open(path, m), path, delete)

        def mkdtemp(self, suffix=None, prefix=None, dir=None):  # pylint: disable=redefined-builtin
            path = self._unique(suffix, prefix, dir)
            fs.mkdir(path)
            return path

    return _TempfileShim()


class _DeterministicNames:
    """Stand-ins for what programs put into temporary file names (uuid, time, random): the
    values come from a counter kept on the simulated file system, so that the I/O trace of a
    history is the same in every process."""

    def __init__(self, fs, real, kind):
        self.__dict__.update(_fs=fs, _real=real, _kind=kind)

    def _next(self):
        self._fs.name_counter = getattr(self._fs, "name_counter", 0) + 1
        return self._fs.name_counter

    def __getattr__(self, name):
        real = getattr(self._real, name)
        if self._kind == "uuid" and name in ("uuid1", "uuid4"):
            return lambda *a, **k: self._real.UUID(int=(0x5EED << 96) + self._next())
        if self._kind == "time" and name in ("time", "monotonic", "perf_counter"):
            return lambda: 1.7e9 + self._next()
        if self._kind == "time" and name in ("time_ns", "monotonic_ns", "perf_counter_ns"):
            return lambda: 1_700_000_000_000_000_000 + self._next()
        if self._kind == "time" and name == "sleep":
            return lambda _s: None
        return real


class _Tripwire:
    """Stands in for a file-system related module or function this model does not
    cover: using it is reported as a harness limitation, never as a violation."""

    def __init__(self, what, real=None):
        self.__dict__["_what"] = what
        self.__dict__["_real"] = real

    def __getattr__(self, name):
        if self._real is not None and not hasattr(self._real, name):
            raise AttributeError(name)  # introspection behaves as on the real object
        raise SimfsUnsupported(f"{self._what}.{name}")

    def __call__(self, *a, **k):
        raise SimfsUnsupported(f"{self._what}()")


def install_seams(mod, fs):
    """Put the simulated file system behind every file-system name in the globals
    of `mod`: builtin open, pathlib.Path, os (and things imported from it).  Names
    bound to modules / functions that are not modelled (shutil, tempfile, glob, io,
    os-level functions imported by name) become tripwires; shutil and tempfile are modelled in
    part, uuid and time (what temporary names are made of) become deterministic.  Returns what is needed
    to undo it."""
    import builtins  # pylint: disable=import-outside-toplevel
    import glob as _glob  # pylint: disable=import-outside-toplevel
    import io as _io  # pylint: disable=import-outside-toplevel
    import os as _os  # pylint: disable=import-outside-toplevel
    import pathlib  # pylint: disable=import-outside-toplevel
    import shutil  # pylint: disable=import-outside-toplevel
    import tempfile  # pylint: disable=import-outside-toplevel
    import time as _time  # pylint: disable=import-outside-toplevel
    import uuid as _uuid  # pylint: disable=import-outside-toplevel

    missing = object()
    saved = {}
    os_shim = make_os_shim(fs, _os)
    path_cls = make_path_class(fs)

    def put(name, value):
        saved[name] = mod.__dict__.get(name, missing)
        setattr(mod, name, value)

    put("open", fs.open)
    for name, val in list(vars(mod).items()):
        if name == "open":
            continue
        if val is _os:
            put(name, os_shim)
        elif val is _os.path:
            put(name, os_shim.path)
        elif val is pathlib.Path or val is pathlib.PosixPath or val is pathlib.PurePath:
            put(name, path_cls)
        elif val is shutil:
            put(name, make_shutil_shim(fs))
        elif val is tempfile:
            put(name, make_tempfile_shim(fs))
        elif val is _uuid:
            put(name, _DeterministicNames(fs, _uuid, "uuid"))
        elif val is _time:
            put(name, _DeterministicNames(fs, _time, "time"))
        elif val in (_glob, _io, pathlib):
            put(name, _Tripwire(getattr(val, "__name__", name), val))
        elif val is builtins.open or val is _io.open:
            put(name, fs.open)
        elif callable(val) and getattr(val, "__module__", None) in ("posix", "nt", "os", "shutil", "tempfile", "glob", "genericpath", "posixpath"):
            fn = getattr(os_shim, getattr(val, "__name__", ""), None) if getattr(val, "__module__", None) in ("posix", "nt", "os") else None
            put(name, fn if callable(fn) and getattr(val, "__name__", "") in ("replace", "rename", "remove", "unlink", "makedirs", "mkdir", "listdir", "scandir", "getcwd", "chdir", "fsync", "fdatasync", "access", "getpid", "fdopen", "close", "fspath")
                else _Tripwire(f"{val.__module__}.{getattr(val, '__name__', name)}", val))
    return saved, missing


def remove_seams(mod, saved_missing):
    saved, missing = saved_missing
    for name, val in saved.items():
        if val is missing:
            mod.__dict__.pop(name, None)
        else:
            setattr(mod, name, val)
