#!/bin/bash
# usage: tools_benign.sh <Cxx> <worktree> <ref_dir_name> <target_id>
# A behaviour-preserving refactoring written by an independent sub-agent: apply it in its scratch worktree,
# run the unedited test suite and the quick check of the property against it (must stay silent: exit 0),
# restore the worktree and file the refactoring under /verif/benign/<target_id>/.
set -u
P=$1; WT=$2; SD=$3; ID=$4
TMPD=$(mktemp -d /tmp/benignrun.XXXXXX); export TMPD
cd "$WT" || exit 9
git checkout -q -- permuta 2>/dev/null
git apply $SD/patch.diff || { echo "PATCH DOES NOT APPLY"; exit 8; }
if [ -n "${SKIP_TESTS:-}" ] && [ -f /verif/benign/$ID/meta.json ]; then
  /venv/bin/python -c "import json;print(json.load(open('/verif/benign/$ID/meta.json'))['confirmed_by_me']['test_suite_on_patched_tree'])" > $TMPD/tests.out
else
  timeout 1500 /venv/bin/python -m pytest -q -p no:cacheprovider -x -n 8 --timeout=900 2>&1 | tail -1 > $TMPD/tests.out
fi
echo "tests: $(cat $TMPD/tests.out)"
cd /verif
VERIF_EVIDENCE_DIR=$TMPD/ev VERIF_REPLAY_DIR=$TMPD/rp ./check $P --repo "$WT" > $TMPD/check.out 2>&1; CHK=$?
grep -E "^violation:|^VIOLATION|HARNESS|UNREPRO|quick:" $TMPD/check.out | cut -c1-400
OTHERS=""
if [ -n "${ALL:-}" ]; then
  # a refactoring of shared code (Perm, Basis ...) must keep every other check silent as well
  for Q in C01 C02 C07 C08 C09 C13 C20; do
    [ "$Q" = "$P" ] && continue
    VERIF_EVIDENCE_DIR=$TMPD/ev VERIF_REPLAY_DIR=$TMPD/rp ./check $Q --repo "$WT" > $TMPD/check_$Q.out 2>&1; R=$?
    OTHERS="$OTHERS $Q=$R"
    [ $R -ne 0 ] && { grep -E "^violation:|^VIOLATION|HARNESS|UNREPRO" $TMPD/check_$Q.out | cut -c1-300 | head -4; CHK=$((CHK ? CHK : 10 + R)); }
  done
  echo "other checks:$OTHERS"
fi
export OTHERS
cd "$WT"; git checkout -q -- permuta; rm -rf dfa_db
echo "check_exit=$CHK"
mkdir -p /verif/benign/$ID; cp $SD/patch.diff /verif/benign/$ID/patch.diff
/venv/bin/python - "$SD/meta.json" "/verif/benign/$ID/meta.json" "$P" "$CHK" <<'PY'
import json, sys, os
src, dst, prop, chk = sys.argv[1:]
try: meta = json.load(open(src))
except Exception: meta = {}
out = open(os.environ['TMPD'] + '/check.out').read()
lines = [l.strip()[:400] for l in out.splitlines() if l.startswith(('violation:', 'HARNESS-ERROR', 'UNREPRODUCIBLE'))]
meta.update({"property": prop, "confirmed_by_me": {
    "test_suite_on_patched_tree": open(os.environ['TMPD'] + '/tests.out').read().strip(),
    "check_command": f"./check {prop} --repo <scratch worktree with the refactoring applied>",
    "check_exit": int(chk), "stayed_silent": int(chk) == 0, "lines": lines[:4],
    **({"other_checks_exit_codes": os.environ["OTHERS"].strip()} if os.environ.get("OTHERS", "").strip() else {})}})
json.dump(meta, open(dst, 'w'), indent=1)
PY
rm -rf $TMPD
