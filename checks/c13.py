"""C13 -- finiteness, polynomial growth and insertion-encodability verdicts are
correct, whatever the container, order, repetition or earlier calls.

histsim: a pool of bases drawn from a small universe of permutations (so memo
entries written for one basis are read for another, including rotated /
inverted images of each other) is queried through every entry point with the
basis delivered as a list, tuple, set, frozenset, Basis, dict view, generator,
one-shot iterator or map object, permuted and with repetitions, and on its
eight symmetric images; the process-wide memo tables are flushed as a fault.
"""
import argparse
import contextlib
import copy
import io
import re

from ref import growth as RG
from ref import patterns as RP
from sim import allocsim, core, histsim

from . import common

PROPERTY = "C13"
LEVEL = "exploration"
RULE = (
    "each seed -> universe of 3-8 permutations (length 1-5, closed under some symmetries), pool of 2-4 bases over it, "
    "history of 6-30 verdict queries (entry point x container kind x order/repetition x symmetric image) with memo "
    "flushes and enumeration cross-checks through Av; non-trivial = a memo entry written by a query on one basis "
    "was read by a query on a different basis or entry point, or a one-shot stream was delivered; distinct = "
    "distinct event-log digest"
)
ABSTRACTION = "sequence of (entry point, container kind, symmetric image, memo warm/cold)"
COMPONENTS = {
    "real": ["permutils.is_finite / is_polynomial / is_non_polynomial / is_insertion_encodable(_rightmost/_maximum)",
             "Av.is_finite / is_polynomial / is_insertion_encodable", "cli.has_poly_growth / has_regular_insertion_encoding (in-process, stdout captured)",
             "Av.count for the enumeration cross-checks", "PolyPerms._CACHE / InsertionEncodablePerms._CACHE"],
    "simulated": ["the caller's history across bases (memo sharing)", "argument streams (one-shot iterators, generators, map objects)",
                  "memo loss (tables flushed)"],
}
ASSUMPTIONS = ["reference = the structure theorems re-implemented by split search (ref/growth.py), agreeing with each other under inverse",
               "Fibonacci bound with F = 1,1,2,3,5,8,... (counts of the sums of 1 and 21)"]
EXPECTED_PROBES = ["guided_interrupt", "memo_hit_other_basis", "one_shot_stream", "symmetric_image", "memo_flush", "cli", "av_method",
                   "enumeration_crosscheck", "duplicates_or_permuted", "finite_basis", "polynomial_basis", "ins_enc_only_topmost", "interrupted_call", "class_object_address_reused", "empty_basis_or_empty_permutation"]

ENTRY = ["is_finite", "is_polynomial", "is_non_polynomial", "is_insertion_encodable", "rightmost", "maximum",
         "av_is_finite", "av_is_polynomial", "av_is_insertion_encodable", "cli_poly", "cli_insenc"]
CONTAINERS = ["list", "tuple", "set", "frozenset", "Basis", "dictkeys", "gen", "iter", "map", "dup", "reversed", "deque"]


def plan(tier):
    if tier == "quick":
        return {"runs": 30000, "chunk": 250, "wall_cap": 150}
    return {"runs": 1000000, "chunk": 1000, "wall_cap": 900}


_STATE = {"memo_slots": None}


def prepare(tier):  # pylint: disable=unused-argument
    RG.self_check()
    common.isolate_locks()
    _memo_slots()


def _memo_slots():
    """The lazily filled process-wide tables of the two verdict modules: containers that are
    empty right after import, and functools caches (PolyPerms._CACHE and
    InsertionEncodablePerms._CACHE on the pinned tree; whatever they have become after a
    refactoring).  Emptying them is memo loss; a table that is filled at import time is data,
    not a memo, and is left alone."""
    if _STATE["memo_slots"] is None:
        import sys  # pylint: disable=import-outside-toplevel

        import permuta.permutils  # noqa: F401  pylint: disable=import-outside-toplevel,unused-import

        slots = {"poly": [], "insenc": []}
        for which, modname in (("poly", "permuta.permutils.polynomial"), ("insenc", "permuta.permutils.insertion_encodable")):
            mod = sys.modules.get(modname)
            if mod is None:
                continue
            for entry in histsim.snapshot_process_state([mod]):
                saved = entry[2]
                if saved is None or (hasattr(saved, "__len__") and len(saved) == 0):
                    slots[which].append(entry)
        _STATE["memo_slots"] = slots
    return _STATE["memo_slots"]


def _flush_memos(which):
    slots = _memo_slots()
    for key in ("poly", "insenc"):
        if which in (key, "both"):
            histsim.restore_process_state(slots[key])


# --- generation ----------------------------------------------------------------------------


def gen_case(rng, tier):
    maxlen = 5 if tier == "quick" else 6
    big = rng.random() < 0.06
    uni = []
    while len(uni) < rng.randint(3, 8):
        n = rng.choice([1, 2, 2, 3, 3, 3, 4, 4, 4, 5, 5, 6][: 9 + (maxlen - 4) * 1 + (1 if maxlen > 5 else 0)])
        if big:
            n = rng.choice([5, 6, 6, 7, 7, 8])
        r = rng.random()
        if r < 0.15:
            p = list(range(n))
        elif r < 0.3:
            p = list(range(n - 1, -1, -1))
        elif r < 0.5:
            # a juxtaposition / layered shape: interesting for the ten classes
            k = rng.randint(0, n)
            a = sorted(rng.sample(range(n), k), reverse=rng.random() < 0.5)
            b = sorted(set(range(n)) - set(a), reverse=rng.random() < 0.5)
            p = a + b
            if rng.random() < 0.5:
                p = list(RP.inverse(tuple(p)))
        else:
            p = common.rand_perm(rng, n)
        if p not in uni:
            uni.append(p)
        if rng.random() < 0.35 and len(uni) < 8:
            img = list(rng.choice(RP.symmetries(tuple(p))))
            if img not in uni:
                uni.append(img)
    if rng.random() < 0.06:
        uni.append([])  # the empty permutation: legal for the functions (Av and the CLI reject it)
    nb = rng.choice([2, 2, 3, 4])
    bases = []
    for _ in range(nb):
        k = rng.choice([1, 2, 2, 3, 3, 4])
        bases.append(sorted(rng.sample(range(len(uni)), min(k, len(uni)))))
    if rng.random() < 0.05:
        bases.append([])  # the empty basis
        nb += 1
    ops = []
    for _ in range(rng.randint(6, 30) if rng.random() >= 0.03 else rng.randint(80, 200)):
        r = rng.random()
        if r < 0.82:
            ops.append({"op": "verdict", "basis": rng.randrange(nb), "entry": rng.choice(ENTRY),
                        "cont": rng.choice(CONTAINERS), "sym": rng.choice([0, 0, 0, 0, 1, 2, 3, 4, 5, 6, 7]),
                        "shuffle": rng.getrandbits(16)})
            if rng.random() < 0.1:
                # the call is interrupted after that many executed library lines; the memo
                # tables keep whatever it had written
                ops[-1]["interrupt"] = int(10 ** rng.uniform(0, 3.2)) if rng.random() < 0.75 else {"guided": round(rng.random(), 3)}
        elif r < 0.9:
            ops.append({"op": "memo_flush", "which": rng.choice(["poly", "insenc", "both"])})
        elif r < 0.94:
            ops.append({"op": "clear_class_cache", "mode": rng.choice(["plain", "orphans"])})
        else:
            ops.append({"op": "enumerate", "basis": rng.randrange(nb)})
    # some histories start on whatever the earlier histories of this process left in the
    # memo tables (a long-lived process); a violation that needs that is replayed as a run range
    return {"universe": uni, "bases": bases, "ops": ops, "nmax": 6 if tier == "quick" else 7, "keep_memo": rng.random() < 0.4}


def cases(rng, tier):
    yield gen_case(rng, tier)


# --- execution -------------------------------------------------------------------------------


def _deliver(perms, cont, shuffle):
    """The basis as the requested kind of iterable; perms are Perm objects."""
    import collections  # pylint: disable=import-outside-toplevel
    import random  # pylint: disable=import-outside-toplevel

    from permuta.perm_sets.basis import Basis  # pylint: disable=import-outside-toplevel

    perms = list(perms)
    random.Random(shuffle).shuffle(perms)
    if cont == "list":
        return perms
    if cont == "tuple":
        return tuple(perms)
    if cont == "set":
        return set(perms)
    if cont == "frozenset":
        return frozenset(perms)
    if cont == "Basis":
        return Basis(*perms)
    if cont == "dictkeys":
        return {p: None for p in perms}.keys()
    if cont == "gen":
        return (p for p in perms)
    if cont == "iter":
        return iter(perms)
    if cont == "map":
        return map(lambda p: p, perms)
    if cont == "dup":
        return perms + perms[::-1]
    if cont == "reversed":
        return reversed(perms)
    if cont == "deque":
        return collections.deque(perms)
    raise ValueError(cont)


def _negative(line):
    return bool(re.search(r"\bnot\b|\bno\b|n't|\bnon", line))


def _basis_string(tuples, one_based, sep):
    return sep.join("".join(str(v + (1 if one_based else 0)) for v in p) for p in tuples)


def execute(case):
    pm = common.lazy_permuta()
    import permuta.cli as cli  # pylint: disable=import-outside-toplevel
    from permuta.permutils import (  # pylint: disable=import-outside-toplevel
        is_finite, is_insertion_encodable, is_insertion_encodable_maximum,
        is_insertion_encodable_rightmost, is_non_polynomial, is_polynomial)

    hist = histsim.Hist()
    out = hist.out
    pm.Av.clear_cache()
    for lock in common.isolate_locks():
        lock._reset()  # pylint: disable=protected-access
    if not case.get("keep_memo"):
        common.clear_functools_caches()
        _flush_memos("both")
    else:
        out.probe("memo_kept_from_earlier_histories")
    uni = [tuple(p) for p in case["universe"]]
    touched_by = {}  # perm tuple (as seen by the memo) -> set of (basis index, entry family)
    abst = []

    def note_memo(tuples, bi, fam):
        hit = False
        for t in tuples:
            keys = [t, RP.inverse(RP.reverse(t)), RP.reverse(RP.inverse(t))]  # the memo may hold a rotated key
            for k in keys:
                users = touched_by.get(k)
                if users and any(u != (bi, fam) for u in users):
                    hit = True
            touched_by.setdefault(t, set()).add((bi, fam))
        if hit:
            out.probe("memo_hit_other_basis")
            out.nontrivial = True
        return hit

    for idx, op in enumerate(case["ops"]):
        hist.op_index = idx
        kind = op["op"]
        if kind == "clear_class_cache":
            # Every class object is asked its verdicts, dropped (Av.clear_cache + gc), and the
            # classes are created again: the new objects are likely to be allocated where the
            # old ones were, in another order.  Verdicts must still be those of the basis.
            import gc  # pylint: disable=import-outside-toplevel

            out.fault("class_cache_cleared")
            seen_ids = {}
            bad = None
            try:
                from permuta.perm_sets.basis import Basis  # pylint: disable=import-outside-toplevel

                orphans = op.get("mode") == "orphans"
                prebuilt = {}
                av_items = None
                for phase in (0, 1):
                    order = list(range(len(case["bases"])))
                    if phase:
                        order = order[1:] + order[:1]
                    keep = []
                    av = None
                    for bi in order:
                        base = [uni[i] for i in case["bases"][bi] if i < len(uni) and len(uni[i]) > 0]
                        if not base:
                            continue
                        if phase and bi in prebuilt:
                            # dig for a block freed by phase 0 (of another basis if possible), so
                            # that the new class object is allocated exactly there
                            wanted = {a for a, owner in seen_ids.items() if owner != bi} or set(seen_ids)
                            _addr, held = allocsim.aim(pm.Av, av_items, wanted)
                            held[-1] = None
                            av = pm.Av(prebuilt[bi])
                            del held
                        else:
                            av = pm.Av([pm.Perm(p) for p in base])
                        keep.append((av, base))
                        if phase and id(av) in seen_ids:
                            out.probe("class_object_address_reused")
                            if seen_ids.pop(id(av)) != bi:
                                out.probe("class_object_at_address_of_another_class")
                        elif not phase:
                            seen_ids[id(av)] = bi
                            av_items = tuple.__len__(av) if isinstance(av, tuple) else None
                    if orphans and not phase:
                        # the class cache is cleared while the objects are still held; they are
                        # asked afterwards, and only then dropped (without another clear)
                        pm.Av.clear_cache()
                    for av, base in keep:
                        got = (av.is_finite(), av.is_polynomial(), av.is_insertion_encodable())
                        exp = (RG.is_finite(base), RG.is_polynomial(base), RG.is_insertion_encodable(base))
                        if got != exp and bad is None:
                            bad = (phase, base, got, exp)
                    if not phase:
                        # built before the old objects are freed (basis elements of length 2-3
                        # are of the size class of a class object and would settle in their blocks)
                        for bi in order:
                            base = [uni[i] for i in case["bases"][bi] if i < len(uni) and len(uni[i]) > 0]
                            if base:
                                prebuilt[bi] = Basis(*[pm.Perm(p) for p in base])
                    del keep, av
                    if not (orphans and not phase):
                        pm.Av.clear_cache()
                    gc.collect()
            except Exception as exc:  # pylint: disable=broad-except
                hist.violate("exception", {"entry": "av_after_clear", "type": type(exc).__name__}, f"{type(exc).__name__}: {exc}")
                break
            hist.log.add("clear_class_cache", idx, bad is None)
            if bad is not None:
                hist.violate("wrong_verdict", {"entry": "av_after_clear"},
                             f"{'after' if bad[0] else 'before'} Av.clear_cache(): Av({bad[1]}) answers (finite, polynomial, insertion-encodable) = {bad[2]}, theorems say {bad[3]}")
                break
            continue
        if kind == "memo_flush":
            _flush_memos(op["which"])
            out.fault("memo_flush")
            out.probe("memo_flush")
            touched_by.clear()
            hist.log.add("flush", idx, op["which"])
            continue
        if op["basis"] >= len(case["bases"]):
            continue
        base = [uni[i] for i in case["bases"][op["basis"]] if i < len(uni)]
        # the empty basis and bases containing the empty permutation are legal arguments of the
        # functions only: Av and the CLI reject them
        special = (not base) or any(len(p) == 0 for p in base)
        if special:
            if kind == "enumerate" or op.get("entry", "").startswith(("av_", "cli_")):
                continue
            out.probe("empty_basis_or_empty_permutation")
        if kind == "enumerate":
            # the verdicts against real enumeration through Av
            out.probe("enumeration_crosscheck")
            nmax = case["nmax"]
            try:
                av = pm.Av([pm.Perm(p) for p in base])
                fin, poly = RG.is_finite(base), RG.is_polynomial(base)
                lib_fin = av.is_finite()
                lib_poly = av.is_polynomial()
                if lib_fin:
                    bound = RG.erdos_szekeres_bound(base) if fin else None
                    if bound is not None and bound + 1 <= nmax + 2:
                        c = av.count(bound + 1)
                        if c != 0:
                            hist.violate("enumeration_contradicts", {"verdict": "finite"},
                                         f"basis {base}: declared finite but count({bound + 1}) = {c} beyond the Erdos-Szekeres bound")
                else:
                    counts = [av.count(n) for n in range(nmax + 1)]
                    if 0 in counts:
                        hist.violate("enumeration_contradicts", {"verdict": "infinite"},
                                     f"basis {base}: declared infinite but the enumeration is {counts}")
                    if not lib_poly and any(c < f for c, f in zip(counts, RG.FIB)):
                        hist.violate("enumeration_contradicts", {"verdict": "non_polynomial"},
                                     f"basis {base}: declared non-polynomial but the enumeration {counts} drops below Fibonacci")
                if lib_fin is not fin or lib_poly is not poly:
                    hist.violate("wrong_verdict", {"entry": "av_is_finite" if lib_fin is not fin else "av_is_polynomial"},
                                 f"basis {base}: Av verdicts finite={lib_fin} polynomial={lib_poly}, theorems say {fin} / {poly}")
                hist.log.add("enum", idx, lib_fin, lib_poly)
            except Exception as exc:  # pylint: disable=broad-except
                hist.violate("exception", {"entry": "enumerate", "type": type(exc).__name__}, f"basis {base}: {type(exc).__name__}: {exc}")
            if hist.violations:
                break
            continue
        # --- a verdict query ---------------------------------------------------
        sym = op["sym"]
        img = [RP.symmetries(p)[sym] for p in base]
        if sym:
            out.probe("symmetric_image")
        entry, cont = op["entry"], op["cont"]
        fam = "poly" if "poly" in entry else ("fin" if "finite" in entry else "ins")
        warm = note_memo(img, op["basis"], fam) if fam != "fin" else False
        perms = [pm.Perm(p) for p in img]
        want = {
            "fin": RG.is_finite(img), "poly": RG.is_polynomial(img), "right": RG.is_rightmost_encodable(img),
            "top": RG.is_topmost_encodable(img),
        }
        want["ins"] = want["right"] or want["top"]
        if want["fin"]:
            out.probe("finite_basis")
        if want["poly"]:
            out.probe("polynomial_basis")
        if want["top"] and not want["right"]:
            out.probe("ins_enc_only_topmost")
        if cont in ("gen", "iter", "map", "reversed"):
            out.probe("one_shot_stream")
            out.nontrivial = True
        if cont in ("dup", "reversed") or op["shuffle"] % 3:
            out.probe("duplicates_or_permuted")
        def call():
                if entry.startswith("av_"):
                    out.probe("av_method")
                    av = pm.Av(_deliver(perms, cont, op["shuffle"]))  # any iterable, one-shot ones included
                    if entry == "av_is_finite":
                        got, exp = av.is_finite(), want["fin"]
                    elif entry == "av_is_polynomial":
                        got, exp = av.is_polynomial(), want["poly"]
                    else:
                        got, exp = av.is_insertion_encodable(), want["ins"]
                elif entry.startswith("cli_"):
                    out.probe("cli")
                    order = list(img)
                    import random  # pylint: disable=import-outside-toplevel

                    random.Random(op["shuffle"]).shuffle(order)
                    if cont == "dup":
                        order = order + order
                    text = _basis_string(order, op["shuffle"] % 2 == 1, ["_", ", ", ":", " "][op["shuffle"] % 4])
                    buf = io.StringIO()
                    with contextlib.redirect_stdout(buf):
                        if entry == "cli_poly":
                            cli.has_poly_growth(argparse.Namespace(basis=text))
                        else:
                            cli.has_regular_insertion_encoding(argparse.Namespace(basis=text))
                    printed = buf.getvalue().lower()
                    # only the verdict is judged, not the wording: a message the harness cannot
                    # interpret is not judged at all
                    lines = [ln for ln in printed.splitlines() if ln.strip()]
                    if entry == "cli_poly":
                        hits = [ln for ln in lines if "polynomial" in ln]
                        if not hits:
                            out.probe("cli_output_not_understood")
                            got = exp = None
                        else:
                            got, exp = (not _negative(hits[0])), want["poly"]
                    else:
                        top = [ln for ln in lines if "topmost" in ln]
                        right = [ln for ln in lines if "rightmost" in ln]
                        none = [ln for ln in lines if "insertion encoding" in ln and _negative(ln) and "topmost" not in ln and "rightmost" not in ln]
                        if not (top or right or none):
                            out.probe("cli_output_not_understood")
                            got = exp = None
                        else:
                            got = (any(not _negative(ln) for ln in top), any(not _negative(ln) for ln in right))
                            exp = (want["top"], want["right"])
                else:
                    arg = _deliver(perms, cont, op["shuffle"])
                    if entry == "is_finite":
                        got, exp = is_finite(arg), want["fin"]
                    elif entry == "is_polynomial":
                        got, exp = is_polynomial(arg), want["poly"]
                    elif entry == "is_non_polynomial":
                        got, exp = is_non_polynomial(arg), not want["poly"]
                    elif entry == "is_insertion_encodable":
                        got, exp = is_insertion_encodable(arg), want["ins"]
                    elif entry == "rightmost":
                        got, exp = is_insertion_encodable_rightmost(arg), want["right"]
                    else:
                        got, exp = is_insertion_encodable_maximum(arg), want["top"]
                return got, exp

        try:
            if op.get("interrupt"):
                import os  # pylint: disable=import-outside-toplevel

                pref = [os.path.join(core.repo_dir(), "permuta") + os.sep]
                at = op["interrupt"]
                if isinstance(at, dict):
                    at = histsim.guided_interrupt_at(call, pref, at["guided"])
                    out.probe("guided_interrupt" if at else "guided_interrupt_no_state_change")
                status, res, _n = histsim.run_interruptible(call, at or 10 ** 9, pref)
                if status == "interrupted":
                    out.fault("interrupted_call")
                    out.probe("interrupted_call")
                    out.nontrivial = True
                    hist.log.add("verdict", idx, entry, cont, sym, "interrupted")
                    abst.append((entry, cont, sym, "interrupted"))
                    continue
                got, exp = res
            else:
                got, exp = call()
        except Exception as exc:  # pylint: disable=broad-except
            if special and isinstance(exc, (ValueError, TypeError)):
                # rejecting the empty basis / the empty permutation is a legitimate way of treating
                # them (Av does): only a wrong verdict on them is judged
                hist.log.add("verdict", idx, entry, cont, sym, "rejected")
                continue
            hist.violate("exception", {"entry": entry, "type": type(exc).__name__, "cont": cont},
                         f"{entry}({cont} of {img}): {type(exc).__name__}: {exc}")
            break
        hist.log.add("verdict", idx, entry, cont, sym, core.canon(got))
        abst.append((entry, cont, sym, warm))
        if got != exp or (isinstance(exp, bool) and not isinstance(got, bool)):
            stream = cont in ("gen", "iter", "map", "reversed")
            hist.violate("wrong_verdict", {"entry": entry, "one_shot": stream, "warm_memo": bool(warm)},
                         f"{entry} on {cont} of {img} (image {RP.SYMMETRY_NAMES[sym]} of basis #{op['basis']}): got {got}, theorems say {exp}")
            break
    out.abstraction = str(hash(tuple(abst)))
    return hist.finish()


def shrink_targets(case):  # pylint: disable=unused-argument
    return [["ops"]]


def simplify(case):
    for i, op in enumerate(case["ops"]):
        if op.get("sym"):
            c = copy.deepcopy(case)
            c["ops"][i]["sym"] = 0
            yield c
        if op.get("cont") not in (None, "list"):
            c = copy.deepcopy(case)
            c["ops"][i]["cont"] = "list"
            yield c
    for bi, b in enumerate(case["bases"]):
        if len(b) > 1:
            for j in range(len(b)):
                c = copy.deepcopy(case)
                del c["bases"][bi][j]
                yield c
