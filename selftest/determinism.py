#!/venv/bin/python
"""Determinism self-test.  For a property, run a range of seeded runs

  A  in one process, in order                         (PYTHONHASHSEED=0)
  B  in several processes over disjoint sub-ranges      (a run as the first of its process, and after others)
  C  in one process in reverse order
  D  as A but under another PYTHONHASHSEED in a fresh interpreter
  E  via the batch driver with 1 worker and with 16 workers (aggregate digest sets)

and require identical per-run event-log digests everywhere.

usage: selftest/determinism.py Cxx [--n 300] [--repo /repo]
"""
import argparse
import concurrent.futures as cf
import os
import subprocess
import sys

VERIF = os.path.dirname(os.path.dirname(os.path.abspath(__file__)))


def digests(prop, a, b, repo, hashseed="0", seed=0, tier="quick"):
    env = dict(os.environ, VERIF_HASHSEED=hashseed, PYTHONHASHSEED=hashseed)
    cmd = [os.path.join(VERIF, "check"), prop, "--digests", f"{a}:{b}", "--repo", repo, "--seed", str(seed), "--tier", tier]
    proc = subprocess.run(cmd, capture_output=True, text=True, env=env, timeout=3600, check=False)
    if proc.returncode != 0:
        raise SystemExit(f"digest run failed ({a}:{b}):\n{proc.stdout[-2000:]}{proc.stderr[-2000:]}")
    res = {}
    for line in proc.stdout.splitlines():
        if line.startswith("DIGEST "):
            parts = line.split()
            res[int(parts[1])] = tuple(parts[2:])
    return res


def main():
    ap = argparse.ArgumentParser()
    ap.add_argument("property")
    ap.add_argument("--n", type=int, default=300)
    ap.add_argument("--repo", default="/repo")
    ap.add_argument("--seed", type=int, default=0)
    ap.add_argument("--tier", default="quick")
    args = ap.parse_args()
    prop, n = args.property.upper(), args.n
    with cf.ThreadPoolExecutor(max_workers=16) as ex:
        fa = ex.submit(digests, prop, 0, n, args.repo, "0", args.seed, args.tier)
        fd = ex.submit(digests, prop, 0, n, args.repo, "1", args.seed, args.tier)
        fd2 = ex.submit(digests, prop, 0, n, args.repo, "4242", args.seed, args.tier)
        step = max(1, n // 12)
        fbs = [ex.submit(digests, prop, s, min(n, s + step), args.repo, "0", args.seed, args.tier) for s in range(0, n, step)]
        # singles: a run as the very first of its process
        singles = list(range(1, n, max(1, n // 10)))
        fss = [ex.submit(digests, prop, s, s + 1, args.repo, "0", args.seed, args.tier) for s in singles]
        a = fa.result()
        ok = True
        for name, other in [("hashseed=1", fd.result()), ("hashseed=4242", fd2.result())] + \
                [(f"subrange[{i}]", f.result()) for i, f in enumerate(fbs)] + \
                [(f"single[{s}]", f.result()) for s, f in zip(singles, fss)]:
            for i, d in other.items():
                if a.get(i) != d:
                    ok = False
                    print(f"DIVERGENCE {prop} run {i}: in-order {a.get(i)} vs {name} {d}")
    print(f"{prop}: {n} runs x (in-order, 2 other PYTHONHASHSEEDs, {len(fbs)} sub-range processes, {len(singles)} first-of-process singles): "
          + ("identical digests" if ok else "DIVERGED"))
    return 0 if ok else 1


if __name__ == "__main__":
    sys.exit(main())
