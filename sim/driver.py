"""Batch driver: seeded fan-out over forked workers, aggregation, minimisation,
replay files, known findings, evidence.

Exit codes: 0 property held on everything explored (KNOWN-FINDING lines
allowed); 1 with a line `VIOLATION property=<id> replay=<path>`; 2 harness
error (`HARNESS-ERROR ...`), never mistaken for either of the others.
"""
import argparse
import concurrent.futures as cf
import copy
import faulthandler
import gc
import importlib
import json
import multiprocessing
import os
import pickle
import random
import signal
import subprocess
import sys
import threading
import time
import traceback

from . import core, minimize

DEFAULT_HASHSEED = "0"
_TRACE_RUNS = bool(os.environ.get("VERIF_TRACE_RUNS"))
_MOD = None


class CaseTimeout(BaseException):
    """Raised by SIGALRM in the main thread: the case looks stuck."""


def _on_alarm(_sig, _frame):
    raise CaseTimeout()


SUSPECT_WALL_S = float(os.environ.get("VERIF_SUSPECT_WALL", "25"))
LINE_BUDGET = int(os.environ.get("VERIF_LINE_BUDGET", "40000000"))


def _budgeted_body(mod, case, budget):
    """Execute under a deterministic step counter (line events in the tree
    under test).  Exceeding the budget ends the child on the spot."""
    prefix = os.path.join(core.repo_dir(), "")
    count = [0]
    wfd = _BUDGET_PIPE[0]

    def local(frame, event, _arg):
        if event == "line":
            count[0] += 1
            if count[0] > budget:
                os.write(wfd, pickle.dumps(("budget", count[0])))
                os._exit(0)  # pylint: disable=protected-access
        return local

    def glob(frame, event, _arg):
        if event == "call" and frame.f_code.co_filename.startswith(prefix):
            return local
        return None

    sys.settrace(glob)
    try:
        out = mod.execute(case)
    finally:
        sys.settrace(None)
    return out.to_json(), count[0]


_BUDGET_PIPE = [None]


def budgeted_execute(mod, case, budget=None):
    """Returns an Outcome; a run that exceeds the line budget gets the
    violation no_termination (deterministic, replayable)."""
    budget = budget or LINE_BUDGET
    rfd, wfd = os.pipe()
    pid = os.fork()
    if pid == 0:
        os.close(rfd)
        _BUDGET_PIPE[0] = wfd
        try:
            signal.setitimer(signal.ITIMER_REAL, 0)
            res = _budgeted_body(mod, case, budget)
            os.write(wfd, pickle.dumps(("ok", res)))
        except BaseException:  # pylint: disable=broad-except
            os.write(wfd, pickle.dumps(("err", traceback.format_exc())))
        finally:
            os._exit(0)  # pylint: disable=protected-access
    os.close(wfd)
    with os.fdopen(rfd, "rb") as f:
        data = f.read()
    os.waitpid(pid, 0)
    if not data:
        raise core.HarnessError("budgeted child died without a result")
    status, res = pickle.loads(data)
    if status == "err":
        raise core.HarnessError("budgeted child failed:\n" + res)
    out = core.Outcome()
    if status == "budget":
        out.violation = core.Violation(
            "no_termination", {},
            f"the history did not finish within {budget} executed lines of library code (ordinary histories need well under 1% of that)")
        out.digest = "no-termination"
        out.steps = res
        return out
    js, _count = res
    out.violation = core.Violation.from_json(js["violation"])
    out.digest, out.abstraction, out.nontrivial = js["digest"], js["abstraction"], js["nontrivial"]
    out.faults, out.probes, out.steps, out.extra = js["faults"], js["probes"], js["steps"], js["extra"]
    return out


class _Guarded:
    """The check module with `execute` wrapped.

    * The cyclic collector runs between runs, never inside one (a collection
      finalises suspended library generators, i.e. runs library code at a point
      no seed decided).
    * A case that runs suspiciously long on the wall clock is not judged by the
      clock: it is re-executed in a child under a deterministic line budget,
      and only exceeding that budget is a violation (no_termination)."""

    def __init__(self, mod):
        self._mod = mod
        self.suspects = 0

    def __getattr__(self, name):
        return getattr(self._mod, name)

    def execute(self, case):
        gc.collect()
        gc.disable()
        use_alarm = not getattr(self._mod, "USES_THREADS", False) and threading.current_thread() is threading.main_thread()
        try:
            if use_alarm:
                signal.signal(signal.SIGALRM, _on_alarm)
                signal.setitimer(signal.ITIMER_REAL, SUSPECT_WALL_S)
            try:
                return self._mod.execute(case)
            except CaseTimeout:
                pass
            except core.HarnessError:
                raise
            except Exception as exc:  # pylint: disable=broad-except
                # An exception that escaped the check's own handlers: if it was raised by
                # code of the tree under test it is the library failing (a violation, with
                # the case as its replay); if it was raised by /verif code it is a harness bug.
                tb = exc.__traceback__
                while tb.tb_next is not None:
                    tb = tb.tb_next
                origin = tb.tb_frame.f_code.co_filename
                if not origin.startswith(os.path.join(core.repo_dir() or "/nonexistent", "")):
                    raise
                out = core.Outcome()
                out.violation = core.Violation(
                    "exception", {"op": "uncaught", "type": type(exc).__name__},
                    f"{type(exc).__name__}: {exc} raised in {os.path.relpath(origin, core.repo_dir())}:{tb.tb_lineno} "
                    "outside any operation-level handler (e.g. while constructing the objects of the case)")
                out.digest = "uncaught-" + type(exc).__name__
                return out
            finally:
                if use_alarm:
                    signal.setitimer(signal.ITIMER_REAL, 0)
        finally:
            gc.enable()
        self.suspects += 1
        return budgeted_execute(self._mod, case)


def _load_check(prop):
    global _MOD
    _MOD = _Guarded(importlib.import_module(f"checks.{prop.lower()}"))
    return _MOD


# --- worker side ------------------------------------------------------------


class _Agg:
    def __init__(self):
        self.evaluations = 0
        self.digests = set()
        self.nontrivial = set()
        self.abstractions = set()
        self.faults = {}
        self.probes = {}
        self.steps = 0
        self.violations = []  # (index, seed, case, violation json)
        self.samples = []
        self.runs = 0

    def add(self, index, seed, case, out, keep_sample):
        self.evaluations += 1
        self.digests.add(out.digest)
        if out.nontrivial:
            self.nontrivial.add(out.digest)
        if out.abstraction:
            self.abstractions.add(out.abstraction)
        for k, v in out.faults.items():
            self.faults[k] = self.faults.get(k, 0) + v
        for k, v in out.probes.items():
            self.probes[k] = self.probes.get(k, 0) + v
        self.steps += out.steps
        if out.violation is not None and len(self.violations) < 8:
            self.violations.append([index, seed, case, out.violation.to_json()])
        if keep_sample and len(self.samples) < 1:
            self.samples.append({"run_index": index, "seed": seed, "case": case,
                                 "digest": out.digest, "nontrivial": out.nontrivial})

    def pack(self):
        return {
            "evaluations": self.evaluations, "digests": self.digests,
            "nontrivial": self.nontrivial, "abstractions": self.abstractions,
            "faults": self.faults, "probes": self.probes, "steps": self.steps,
            "violations": self.violations, "samples": self.samples, "runs": self.runs,
        }


def run_indices(mod, prop, tier, batch_seed, indices, keep_sample=True, digest_only=False):
    # everything alive now (imports, reference tables) goes to the permanent
    # generation: the per-run collections only look at what the runs allocate
    gc.collect()
    gc.freeze()
    agg = _Agg()
    per_run = []
    for i in indices:
        seed = core.derive_seed(batch_seed, prop, i)
        rng = random.Random(seed)
        agg.runs += 1
        if _TRACE_RUNS:
            print(f"RUN {i} seed {seed}", file=sys.stderr, flush=True)
        first = True
        digs = []
        for case in mod.cases(rng, tier):
            out = mod.execute(case)
            agg.add(i, seed, case, out, keep_sample and first)
            digs.append(out.digest)
            first = False
        per_run.append((i, digs))
    res = agg.pack()
    if digest_only:
        res["per_run"] = per_run
    return res


def _init_worker(counter):
    """Pin each worker to one CPU: the simulated threads of a run hand a baton
    to each other thousands of times; on one core that is a plain context
    switch, across cores it is a cross-CPU wake-up (several times slower)."""
    with counter.get_lock():
        idx = counter.value
        counter.value += 1
    try:
        cpus = sorted(os.sched_getaffinity(0))
        os.sched_setaffinity(0, {cpus[idx % len(cpus)]})
    except (AttributeError, OSError):
        pass


def in_forked_child(fn, *args):
    """Run fn(*args) in a forked child and return ("ok", result) or
    ("err", text).  The caller's process never executes library code, so every
    chunk of runs (and every known-finding probe) starts from the same pristine
    state: permuta imported, nothing called."""
    rfd, wfd = os.pipe()
    pid = os.fork()
    if pid == 0:
        code = 0
        try:
            os.close(rfd)
            try:
                data = pickle.dumps(("ok", fn(*args)))
            except BaseException:  # pylint: disable=broad-except
                data = pickle.dumps(("err", traceback.format_exc()))
            with os.fdopen(wfd, "wb") as f:
                f.write(data)
        except BaseException:  # pylint: disable=broad-except
            code = 3
        finally:
            os._exit(code)  # pylint: disable=protected-access
    os.close(wfd)
    with os.fdopen(rfd, "rb") as f:
        data = f.read()
    _, status = os.waitpid(pid, 0)
    if not data:
        return ("err", f"child process died without a result (wait status {status}: crash or watchdog)")
    return pickle.loads(data)


def _chunk_body(prop, tier, batch_seed, start, end, chunk_timeout):
    faulthandler.dump_traceback_later(chunk_timeout, exit=True)
    res = run_indices(_MOD, prop, tier, batch_seed, range(start, end), keep_sample=(start % 7 == 0))
    faulthandler.cancel_dump_traceback_later()
    return res


def _worker_chunk(args):
    prop, tier, batch_seed, start, end, chunk_timeout = args
    status, res = in_forked_child(_chunk_body, prop, tier, batch_seed, start, end, chunk_timeout)
    if status != "ok":
        return {"harness_error": res, "chunk": (start, end)}
    for v in res["violations"]:
        v.append(start)
    return res


def fork_map(fn, items, workers):
    """Map fn over items in forked worker processes (order preserved)."""
    if not items:
        return []
    ctx = multiprocessing.get_context("fork")
    with cf.ProcessPoolExecutor(max_workers=max(1, min(workers, len(items))), mp_context=ctx) as pool:
        return list(pool.map(fn, items))


def empty_agg():
    return {"evaluations": 0, "runs": 0, "digests": set(), "nontrivial": set(), "abstractions": set(),
            "steps": 0, "faults": {}, "probes": {}, "violations": [], "samples": []}


def _probe_body(case):
    out = _MOD.execute(case)
    return out.to_json()


# --- parent side --------------------------------------------------------------


def _merge(total, part):
    total["evaluations"] += part["evaluations"]
    total["runs"] += part["runs"]
    total["digests"] |= part["digests"]
    total["nontrivial"] |= part["nontrivial"]
    total["abstractions"] |= part["abstractions"]
    total["steps"] += part["steps"]
    for key in ("faults", "probes"):
        for k, v in part[key].items():
            total[key][k] = total[key].get(k, 0) + v
    total["violations"].extend(part["violations"])
    if len(total["samples"]) < 4:
        total["samples"].extend(part["samples"][: 4 - len(total["samples"])])


def _harness_error(msg):
    print(f"HARNESS-ERROR {msg}", flush=True)
    sys.exit(2)


def _replay_path(prop, seed, tag=""):
    d = os.environ.get("VERIF_REPLAY_DIR") or os.path.join(core.VERIF_DIR, "replays")
    os.makedirs(d, exist_ok=True)
    return os.path.join(d, f"{prop}-{seed}{tag}.json")


def write_replay(prop, seed, case, violation, digest, path=None, note=""):
    path = path or _replay_path(prop, seed)
    with open(path, "w") as f:
        json.dump({
            "property": prop, "seed": seed,
            "pythonhashseed": os.environ.get("PYTHONHASHSEED", ""),
            "case": case, "violation": violation.to_json(), "digest": digest, "note": note,
        }, f, indent=1, sort_keys=True)
    return path


def replay_in_fresh_process(prop, path, repo):
    cmd = [sys.executable, os.path.join(core.VERIF_DIR, "check"), prop, "--replay", path,
           "--repo", repo, "--json"]
    proc = subprocess.run(cmd, capture_output=True, text=True, timeout=600, check=False)
    for line in proc.stdout.splitlines():
        if line.startswith("REPLAY-RESULT "):
            return json.loads(line[len("REPLAY-RESULT "):])
    return {"error": proc.stdout[-2000:] + proc.stderr[-2000:]}


def do_replay(mod, prop, path, as_json):
    with open(path) as f:
        rec = json.load(f)
    want = core.Violation.from_json(rec.get("violation"))
    found_index = None
    if "run_range" in rec:
        rr = rec["run_range"]
        out = core.Outcome()
        # the conditions of a worker: check prepared, everything allocated so far frozen
        if hasattr(mod, "prepare"):
            mod.prepare(rr["tier"])
        gc.collect()
        gc.freeze()
        for i in range(rr["start"], rr["index"] + 1):
            rng = random.Random(core.derive_seed(rr["batch_seed"], prop, i))
            for case in mod.cases(rng, rr["tier"]):
                o = mod.execute(case)
                if o.violation is None:
                    continue
                if rr.get("any_index"):
                    # search mode: the first violation anywhere in the range (a listed
                    # finding is not what is being looked for)
                    if not any(core.finding_matches(e, o.violation) for e in core.load_known_findings(prop)):
                        out, found_index = o, i
                        break
                elif i == rr["index"]:
                    if out.violation is None or (want is not None and want.same_class(o.violation)
                                                 and not want.same_class(out.violation)):
                        out = o
            if found_index is not None:
                break
    elif want is not None and want.kind == "no_termination":
        out = budgeted_execute(mod, rec["case"])
    else:
        out = mod.execute(rec["case"])
    res = {"violation": out.violation.to_json() if out.violation else None,
           "digest": out.digest,
           "same_class": bool(want and want.same_class(out.violation))}
    if found_index is not None:
        res["found_index"] = found_index
    if as_json:
        print("REPLAY-RESULT " + json.dumps(res), flush=True)
    if out.violation is not None:
        known = [e for e in core.load_known_findings(prop) if core.finding_matches(e, out.violation)]
        if known:
            print(f"KNOWN-FINDING: property={prop} {known[0]['what']}")
            return 0
        print(f"replayed: {out.violation.kind} {json.dumps(out.violation.key, sort_keys=True)} :: {out.violation.detail}")
        print(f"VIOLATION property={prop} replay={path}")
        return 1
    print("replay: no violation reproduced")
    return 0


def _range_replay(prop, tier, batch_seed, start, index, violation, repo, seed):
    """A violation that needs earlier runs of the same process to manifest
    (state leaking between independent histories): the replay artefact is the
    run range itself, re-generated from the batch seed."""
    path = _replay_path(prop, seed, "-range")

    def attempt(s0):
        with open(path, "w") as f:
            json.dump({"property": prop, "seed": seed, "pythonhashseed": os.environ.get("PYTHONHASHSEED", ""),
                       "run_range": {"batch_seed": batch_seed, "tier": tier, "start": s0, "index": index},
                       "violation": violation.to_json(),
                       "note": "violation needs the earlier runs of the same process: replay re-executes the seeded runs start..index in one fresh process"},
                      f, indent=1, sort_keys=True)
        return replay_in_fresh_process(prop, path, repo).get("same_class")

    if not attempt(start):
        return None
    lo, hi = start, index  # runs lo..index reproduce; find the largest start that still does
    while lo < hi:
        mid = (lo + hi + 1) // 2
        if attempt(mid):
            lo = mid
        else:
            hi = mid - 1
    attempt(lo)
    return path


def _chunk_replay(prop, tier, batch_seed, start, index, repo, seed):
    """Last resort for state that leaks between the histories of one process and depends on
    where things are allocated (the exact violation of the worker does not come back in
    another process): re-execute the seeded runs of the chunk in a fresh process and take
    the first violation met there, whatever run it is in; it is reported only if the run
    range up to it reproduces it again in further fresh processes.  Returns (path,
    violation) or None."""
    path = _replay_path(prop, seed, "-range")

    def write(s0, idx, violation, any_index):
        with open(path, "w") as f:
            json.dump({"property": prop, "seed": seed, "pythonhashseed": os.environ.get("PYTHONHASHSEED", ""),
                       "run_range": dict({"batch_seed": batch_seed, "tier": tier, "start": s0, "index": idx},
                                         **({"any_index": True} if any_index else {})),
                       "violation": violation,
                       "note": "violation needs the earlier runs of the same process: replay re-executes the seeded runs start..index in one fresh process"},
                      f, indent=1, sort_keys=True)

    write(start, index + 40, None, True)
    res = replay_in_fresh_process(prop, path, repo)
    if res.get("found_index") is None or not res.get("violation"):
        os.remove(path)
        return None
    idx, vjson = res["found_index"], res["violation"]
    for _ in range(2):  # must come back twice more, exactly there
        write(start, idx, vjson, False)
        if not replay_in_fresh_process(prop, path, repo).get("same_class"):
            os.remove(path)
            return None
    return path, core.Violation.from_json(vjson)


def handle_violation(mod, prop, index, seed, case, vjson, repo, do_min=True, tier="quick", batch_seed=0, chunk_start=-1):
    """Confirm, minimise, write the replay, confirm it in a fresh process.
    Returns (path, violation) ."""
    violation = core.Violation.from_json(vjson)
    tmp = write_replay(prop, seed, case, violation, "", path=_replay_path(prop, seed, "-unconfirmed"))
    res = replay_in_fresh_process(prop, tmp, repo)
    os.remove(tmp)
    if not res.get("same_class"):
        if chunk_start >= 0:
            path = _range_replay(prop, tier, batch_seed, chunk_start, index, violation, repo, seed)
            if path is not None:
                return path, violation
            got = _chunk_replay(prop, tier, batch_seed, chunk_start, index, repo, seed)
            if got is not None:
                return got
        return None, (f"violation of run {index} (seed {seed}) reproduces neither alone nor after the earlier runs "
                      f"of its chunk in a fresh process: {violation!r} vs {res}")
    out = mod.execute(copy.deepcopy(case))
    case2 = case
    if hasattr(mod, "freeze") and violation.same_class(out.violation):
        # turn PRNG-driven parts (schedule policy) into recorded data
        frozen = mod.freeze(copy.deepcopy(case), out)
        if frozen is not None:
            o2 = mod.execute(copy.deepcopy(frozen))
            if violation.same_class(o2.violation):
                case2 = frozen
    n_exec = 0
    if do_min and violation.same_class(out.violation):
        case2, n_exec = minimize.minimize(
            case2, lambda c: mod.execute(copy.deepcopy(c)), violation,
            getattr(mod, "shrink_targets", lambda c: []), getattr(mod, "simplify", None))
    final = mod.execute(copy.deepcopy(case2))
    if violation.same_class(final.violation):
        path = write_replay(prop, seed, case2, final.violation, final.digest,
                            note=f"minimised with {n_exec} executions from run index {index}")
        if replay_in_fresh_process(prop, path, repo).get("same_class"):
            return path, final.violation
    # minimised form does not hold up in a fresh process: keep the original case
    path = write_replay(prop, seed, case, violation, res.get("digest", ""),
                        note=f"unminimised case of run index {index} (the minimised form did not reproduce in a fresh process)")
    if not replay_in_fresh_process(prop, path, repo).get("same_class"):
        return None, f"replay file {path} does not reproduce in a fresh process"
    return path, violation


def run_batch(mod, prop, tier, batch_seed, repo, workers, runs_override=None, wall_override=None):
    t0 = time.monotonic()
    plan = mod.plan(tier)
    runs = runs_override if runs_override is not None else plan["runs"]
    chunk = plan.get("chunk", 50)
    wall_cap = wall_override if wall_override is not None else plan.get("wall_cap", 600)
    chunk_timeout = plan.get("chunk_timeout", 600)

    total = empty_agg()
    extra_cov = {}
    known = core.load_known_findings(prop)
    printed_known = []
    violations_out = []

    # deterministic part: reference self-checks, exhaustive sub-checks, probes
    # of listed known findings
    if hasattr(mod, "prepare"):
        mod.prepare(tier)
    pre = mod.preflight(tier, batch_seed, workers) if hasattr(mod, "preflight") else None
    if pre:
        _merge(total, pre["agg"])
        extra_cov.update(pre.get("coverage", {}))

    for entry in known:
        probe = entry.get("probe")
        if probe is None:
            continue
        status, res = in_forked_child(_probe_body, copy.deepcopy(probe))
        if status != "ok":
            _harness_error(f"known-finding probe {entry.get('id')} failed:\n{res}")
        total["evaluations"] += 1
        pv = core.Violation.from_json(res["violation"])
        if pv is not None and core.finding_matches(entry, pv):
            line = f"KNOWN-FINDING: property={prop} {entry['what']}"
            print(line, flush=True)
            printed_known.append(entry["what"])
        elif pv is not None:
            total["violations"].append([-1, 0, probe, pv.to_json(), -1])

    truncated = False
    if os.environ.get("VERIF_TIMING"):
        print(f"timing: preflight+probes done at {time.monotonic() - t0:.1f}s", flush=True)
    if runs > 0:
        tasks = [(prop, tier, batch_seed, s, min(s + chunk, runs), chunk_timeout)
                 for s in range(0, runs, chunk)]
        ctx = multiprocessing.get_context("fork")
        counter = ctx.Value("i", 0)
        with cf.ProcessPoolExecutor(max_workers=workers, mp_context=ctx,
                                    initializer=_init_worker, initargs=(counter,)) as pool:
            futs = [pool.submit(_worker_chunk, t) for t in tasks]
            try:
                for fut in cf.as_completed(futs, timeout=wall_cap + chunk_timeout + 60):
                    if fut.cancelled():
                        continue
                    part = fut.result()
                    if "harness_error" in part:
                        for f2 in futs:
                            f2.cancel()
                        _harness_error(f"worker exception in chunk {part['chunk']}:\n{part['harness_error']}")
                    _merge(total, part)
                    if time.monotonic() - t0 > wall_cap and not truncated:
                        truncated = True
                        for f2 in futs:
                            f2.cancel()
            except cf.TimeoutError:
                for proc in list(getattr(pool, "_processes", {}).values()):
                    proc.kill()
                _harness_error("batch did not finish inside the wall cap (worker hang)")
            except cf.process.BrokenProcessPool:
                _harness_error("a worker process died (watchdog or crash)")

    if os.environ.get("VERIF_TIMING"):
        print(f"timing: batch done at {time.monotonic() - t0:.1f}s", flush=True)
    # --- violations ---------------------------------------------------------
    seen_classes = {}
    suppressed_known = {}
    unreproducible = []
    for index, seed, case, vjson, chunk_start in sorted(total["violations"], key=lambda v: (v[0], json.dumps(v[2], sort_keys=True))):
        v = core.Violation.from_json(vjson)
        matched = [e for e in known if core.finding_matches(e, v)]
        if matched:
            suppressed_known[matched[0]["what"]] = suppressed_known.get(matched[0]["what"], 0) + 1
            if matched[0]["what"] not in printed_known:
                print(f"KNOWN-FINDING: property={prop} {matched[0]['what']}", flush=True)
                printed_known.append(matched[0]["what"])
            continue
        sig = (v.kind, json.dumps(v.key, sort_keys=True))
        # at most 4 confirmed classes are reported; classes that do not reproduce do not use
        # up that allowance (up to 10 attempts in all)
        if sig in seen_classes or len(violations_out) >= 4 or len(seen_classes) >= 10:
            seen_classes[sig] = seen_classes.get(sig, 0) + 1
            continue
        seen_classes[sig] = 1
        path, final_v = handle_violation(mod, prop, index, seed, case, vjson, repo, tier=tier,
                                         batch_seed=batch_seed, chunk_start=chunk_start)
        if path is None:
            unreproducible.append(final_v)
            continue
        print(f"violation: {final_v.kind} {json.dumps(final_v.key, sort_keys=True)} :: {final_v.detail}", flush=True)
        print(f"VIOLATION property={prop} replay={path}", flush=True)
        violations_out.append(path)

    # A violation class that cannot be reproduced from a replay file is never reported as a
    # violation.  If nothing else was confirmed the batch is a harness error (not exit 0);
    # next to confirmed violations it is only logged.
    for msg in unreproducible:
        print(f"UNREPRODUCIBLE (not reported as a violation): {msg}"[:600], flush=True)

    # the same property under other PYTHONHASHSEED values (a recorded
    # configuration: string hashing changes set/dict iteration orders)
    if not os.environ.get("VERIF_NO_EXTRA") and plan.get("extra_hashseeds") and runs_override is None:
        import tempfile  # pylint: disable=import-outside-toplevel

        others = {}
        for k, hs in enumerate(plan["extra_hashseeds"]):
            with tempfile.TemporaryDirectory(prefix="verif-ev-") as tmpd:
                env = dict(os.environ, VERIF_HASHSEED=str(hs), PYTHONHASHSEED=str(hs), VERIF_NO_EXTRA="1",
                           VERIF_EVIDENCE_DIR=tmpd)
                cmd = [sys.executable, os.path.join(core.VERIF_DIR, "check"), prop, "--tier", tier, "--repo", repo,
                       "--runs", str(plan.get("extra_runs", 1000)), "--seed", str(batch_seed + 7919 * (k + 1)),
                       "--workers", str(workers)]
                proc = subprocess.run(cmd, capture_output=True, text=True, env=env, timeout=wall_cap + 900, check=False)
                info = {"exit": proc.returncode}
                try:
                    with open(os.path.join(tmpd, f"{prop}.json")) as f:
                        sub = json.load(f)
                    info.update(evaluations=sub["coverage"]["evaluations"],
                                distinct_nontrivial=sub["coverage"]["distinct_nontrivial"], seed=sub["seed"])
                    total["evaluations"] += sub["coverage"]["evaluations"]
                except (OSError, ValueError, KeyError):
                    pass
                others[str(hs)] = info
                for line in proc.stdout.splitlines():
                    if line.startswith(("VIOLATION", "violation:", "HARNESS-ERROR")):
                        print(f"[PYTHONHASHSEED={hs}] {line}" if not line.startswith("VIOLATION") else line, flush=True)
                    if line.startswith("VIOLATION"):
                        violations_out.append(line.split("replay=", 1)[-1])
                if proc.returncode == 2 and (violations_out or unreproducible):
                    print(f"[PYTHONHASHSEED={hs}] sub-batch ended in a harness error; confirmed violations are reported above", flush=True)
                elif proc.returncode == 2:
                    _harness_error(f"sub-batch under PYTHONHASHSEED={hs} failed:\n{proc.stdout[-1500:]}{proc.stderr[-1500:]}")
        extra_cov["other_pythonhashseeds"] = others

    if unreproducible and not violations_out:
        _harness_error("a violation was observed in a worker but no replay file reproduces it (state outside the "
                       "simulator's control, e.g. absolute addresses)")

    wall = time.monotonic() - t0
    write_evidence(mod, prop, tier, batch_seed, total, extra_cov, wall, len(violations_out),
                   printed_known, suppressed_known, truncated, workers, runs)
    rate = total["evaluations"] / wall * 3600 if wall > 0 else 0
    print(f"{prop} {tier}: runs={total['runs']} evaluations={total['evaluations']} "
          f"distinct={len(total['digests'])} nontrivial={len(total['nontrivial'])} "
          f"steps={total['steps']} wall={wall:.1f}s ({rate:,.0f} evaluations/h) "
          f"violations={len(violations_out)} violating_runs={len(total['violations'])} known_findings={len(printed_known)}"
          + (" TRUNCATED-BY-WALL-CAP" if truncated else ""), flush=True)
    stuck = sorted(p for p in getattr(mod, "EXPECTED_PROBES", []) if not total["probes"].get(p))
    if stuck and runs_override is None and not truncated:
        # reach, not a verdict: a fault kind or rare condition that never happened in this batch
        print(f"note: probes stuck at zero in this batch: {', '.join(stuck)}", flush=True)
    return 1 if violations_out else 0


def write_evidence(mod, prop, tier, batch_seed, total, extra_cov, wall, n_viol, printed_known,
                   suppressed_known, truncated, workers, planned_runs):
    cov = {
        "evaluations": total["evaluations"],
        "distinct_nontrivial": len(total["nontrivial"]),
        "rule": mod.RULE,
        "samples": total["samples"][:3],
        "seeded_runs": total["runs"],
        "planned_runs": planned_runs,
        "truncated_by_wall_cap": truncated,
        "distinct_event_digests": len(total["digests"]),
        "distinct_abstractions": len(total["abstractions"]),
        "abstraction_measure": getattr(mod, "ABSTRACTION", ""),
        "simulated_steps": total["steps"],
        "simulated_time_note": "logical time only: yield points / operations / I/O calls; no property has a clock",
        "evaluations_per_hour": int(total["evaluations"] / wall * 3600) if wall > 0 else 0,
        "faults_fired": dict(sorted(total["faults"].items())),
        "probes": dict(sorted(total["probes"].items())),
        "probes_stuck_at_zero": sorted(p for p in getattr(mod, "EXPECTED_PROBES", []) if not total["probes"].get(p)),
        "components": getattr(mod, "COMPONENTS", {}),
        "known_findings_printed": printed_known,
        "known_finding_hits_in_random_runs": suppressed_known,
        "workers": workers,
        "pythonhashseed": os.environ.get("PYTHONHASHSEED", ""),
        "seeds": f"run i uses splitmix64-derived seed from (VERIF_SEED={batch_seed}, '{prop}', i), i in [0,{planned_runs})",
        "repo": core.repo_dir(),
    }
    cov.update(extra_cov)
    ev = {
        "property_id": prop, "tier": tier, "seed": batch_seed, "level": mod.LEVEL,
        "coverage": cov, "assumptions": getattr(mod, "ASSUMPTIONS", []),
        "wall_s": round(wall, 2), "violations": n_viol,
    }
    d = os.environ.get("VERIF_EVIDENCE_DIR") or os.path.join(core.VERIF_DIR, "evidence")
    os.makedirs(d, exist_ok=True)
    tmp = os.path.join(d, f".{prop}.json.tmp")
    with open(tmp, "w") as f:
        json.dump(ev, f, indent=1, sort_keys=True, default=str)
    os.replace(tmp, os.path.join(d, f"{prop}.json"))


def main(argv=None):
    ap = argparse.ArgumentParser(prog="check")
    ap.add_argument("property")
    ap.add_argument("--tier", default=os.environ.get("VERIF_TIER", "quick"), choices=["quick", "thorough"])
    ap.add_argument("--replay")
    ap.add_argument("--repo", default=os.environ.get("VERIF_REPO", "/repo"))
    ap.add_argument("--seed", type=int, default=None)
    ap.add_argument("--runs", type=int, default=None)
    ap.add_argument("--wall", type=float, default=None)
    ap.add_argument("--workers", type=int, default=int(os.environ.get("VERIF_WORKERS", "0")) or (os.cpu_count() or 4))
    ap.add_argument("--json", action="store_true")
    ap.add_argument("--digests", help="selftest: print per-run digests for indices a:b")
    args = ap.parse_args(argv)
    prop = args.property.upper()

    want_hs = os.environ.get("VERIF_HASHSEED", DEFAULT_HASHSEED)
    if args.replay:
        with open(args.replay) as f:
            want_hs = json.load(f).get("pythonhashseed") or want_hs
    if os.environ.get("PYTHONHASHSEED") != want_hs:
        env = dict(os.environ, PYTHONHASHSEED=want_hs, PYTHONDONTWRITEBYTECODE="1")
        os.execve(sys.executable, [sys.executable, os.path.join(core.VERIF_DIR, "check")] + (argv or sys.argv[1:]), env)

    seed = args.seed if args.seed is not None else int(os.environ.get("VERIF_SEED", "0") or 0)
    try:
        core.setup_repo(args.repo)
        mod = _load_check(prop)
        if args.replay:
            return do_replay(mod, prop, args.replay, args.json)
        if args.digests:
            a, b = (int(x) for x in args.digests.split(":"))
            if hasattr(mod, "prepare"):
                mod.prepare(args.tier)
            res = run_indices(mod, prop, args.tier, seed, range(a, b), keep_sample=False, digest_only=True)
            for i, digs in res["per_run"]:
                print(f"DIGEST {i} {' '.join(digs)}")
            return 0
        return run_batch(mod, prop, args.tier, seed, args.repo, args.workers, args.runs, args.wall)
    except core.HarnessError as exc:
        _harness_error(str(exc))
    except SystemExit:
        raise
    except BaseException:  # pylint: disable=broad-except
        _harness_error("unexpected exception in /verif code:\n" + traceback.format_exc())
    return 2
