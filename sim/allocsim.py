"""Allocation-history injector.

The simulator cannot choose addresses, it chooses allocation *events*: which
objects of which pymalloc size class are created, held and released between
two observations.  A hash derived from the address of a temporary is equal for
consecutive calls only because the allocator hands the just-freed block out
again; holding fresh objects of the same size class takes that block away, so
the next temporary lands elsewhere.  A correct hash is independent of all this,
so none of these faults can make correct code fail.
"""
import gc

_SLOT_TYPES = {}


def slot_type(k):
    """A class whose instances have k slots and no __dict__: GC object of
    16 (gc header) + 16 (object header) + 8k bytes, allocated through pymalloc
    (sizes up to 512 bytes) with no type-specific free list."""
    t = _SLOT_TYPES.get(k)
    if t is None:
        t = type(f"Slot{k}", (), {"__slots__": tuple(f"a{i}" for i in range(k))})
        _SLOT_TYPES[k] = t
    return t


ALL_SLOT_COUNTS = list(range(0, 61, 2))


class Heap:
    """Objects the simulator is holding on to."""

    def __init__(self):
        self.held = {}

    def hold(self, tag, slot_counts, count):
        lst = self.held.setdefault(tag, [])
        for k in slot_counts:
            cls = slot_type(k)
            lst.extend(cls() for _ in range(count))
        return len(lst)

    def hold_misc(self, tag, count):
        """Non-slot objects of assorted sizes: bytes, tuples, dicts, lists,
        bound methods, super proxies, frozensets."""
        lst = self.held.setdefault(tag, [])

        class _B:  # noqa: N801
            def m(self):
                return super()

        for i in range(count):
            lst.append(bytes(7 + 16 * (i % 30)))
            lst.append(tuple(range(i % 23)))
            lst.append({i: i})
            lst.append([i] * (i % 9))
            lst.append(_B().m)
            lst.append(_B().m())
            lst.append(frozenset(range(i % 11)))
            lst.append(object())
        return len(lst)

    def release(self, tag, every=1):
        lst = self.held.get(tag)
        if not lst:
            return 0
        if every <= 1:
            n = len(lst)
            del self.held[tag]
            return n
        keep = [o for i, o in enumerate(lst) if i % every]
        n = len(lst) - len(keep)
        self.held[tag] = keep
        return n

    def release_all(self):
        self.held.clear()


def churn(n):
    """Create and drop temporaries of many shapes."""
    acc = 0
    for i in range(n):
        t = (i, i + 1, (i,))
        d = {i: t}
        s = frozenset((i, i + 1))
        o = slot_type((i * 2) % 60)()
        acc += len(t) + len(d) + len(s) + (o is not None)
    return acc


def recurse(depth):
    """Deep recursion: frame and locals allocation, then everything freed."""
    if depth <= 0:
        return 0
    local = [depth, (depth,)]
    return recurse(depth - 1) + len(local) - 2


def canonical_perturbation(heap, tag="canon"):
    """Take the head of the free list of every small size class."""
    heap.hold(tag, ALL_SLOT_COUNTS, 3)
    heap.hold_misc(tag, 2)


def collect():
    return gc.collect()


# --- aimed address reuse -----------------------------------------------------------------
#
# "Free an object, create another one, hope it lands at the same address" works only when
# nothing else of that size class is freed or allocated in between; in a real history the
# freed block ends up 50-130 blocks deep in the free list of its pool.  aim() digs for it:
# it allocates filler objects with the memory layout of the object to be created until one
# of them sits at a wanted address; the caller frees that one immediately before creating its
# object (pymalloc's per-pool free list is LIFO, so it is the block handed out next in that
# size class) and keeps the others alive until then.  Nothing here can make correct code fail: which
# address an object gets is not something a program may depend on.

_FILLER_TYPES = {}
_LAYOUT_FLAGS = (1 << 3) | (1 << 4) | (1 << 14)  # MANAGED_WEAKREF, MANAGED_DICT, HAVE_GC


def _filler_type(t):
    """A type whose instances are allocated like instances of t (same basic size, item size,
    pre-header and gc header), or None if none of the candidates matches."""
    if t in _FILLER_TYPES:
        return _FILLER_TYPES[t]
    found = None
    bases = (tuple,) if issubclass(t, tuple) else (object,)
    nslots = max(0, (t.__basicsize__ - bases[0].__basicsize__) // 8)
    for ns in ({}, {"__slots__": ()}, {"__slots__": ("__dict__",)}, {"__slots__": ("__weakref__",)},
               {"__slots__": tuple(f"s{i}" for i in range(nslots))},
               {"__slots__": tuple(f"s{i}" for i in range(max(0, nslots - 1))) + ("__dict__",)},
               {"__slots__": tuple(f"s{i}" for i in range(max(0, nslots - 2))) + ("__dict__", "__weakref__")}):
        try:
            cand = type("_Filler", bases, dict(ns))
        except TypeError:
            continue
        if (cand.__basicsize__ == t.__basicsize__ and cand.__itemsize__ == t.__itemsize__
                and (cand.__flags__ & _LAYOUT_FLAGS) == (t.__flags__ & _LAYOUT_FLAGS)):
            found = cand
            break
    _FILLER_TYPES[t] = found
    return found


def aim(typ, nitems, wanted, tries=800):
    """Find a free block at one of the addresses in `wanted` that an instance of `typ` (with
    `nitems` items if typ is a tuple subclass) can be allocated in.  Returns (address or
    None, held): the filler occupying the block is held[-1]; the caller executes
    `held[-1] = None` immediately before creating its object (nothing else must be freed in
    between: the per-pool free list is LIFO) and keeps `held` alive until then."""
    ftype = _filler_type(typ)
    if ftype is None or not wanted:
        return None, [None]
    proto = (None,) * nitems if issubclass(typ, tuple) else None
    held = [None] * (tries + 1)
    for k in range(tries):
        f = ftype(proto) if proto is not None else ftype()
        if id(f) in wanted:
            held[-1] = f
            return id(f), held
        held[k] = f
    return None, held
