"""C02 -- Av(basis) reports exactly the avoiders, independent of query history.

histsim: a seeded history of queries on a small pool of classes, interleaved
with partially consumed library iterators, cache clears, re-creation of a class
from an equal basis in another form, other classes, dropped references and
garbage collections.  Every response and every iterator prefix is compared
with the brute-force reference.
"""
import copy
import gc

from ref import classes as RC
from sim import allocsim, core, histsim

from . import avops, common

PROPERTY = "C02"
LEVEL = "exploration"
RULE = (
    "each seed -> pool of 1-3 classes (classical and mesh bases) and a history of 5-30 ops (queries, "
    "iterator creation / stepping / closing / abandoning, clear_cache, re-creation from an equal basis, "
    "other classes, dropped references + gc); non-trivial = a live iterator was resumed after another "
    "operation touched its class or the instance cache, or a query went below / far beyond the built "
    "depth; distinct = distinct event-log digest (every op with its response)"
)
ABSTRACTION = "sequence of op kinds with (class index, relation of requested length to built depth)"
COMPONENTS = {
    "real": ["permuta.perm_sets.permset.Av (level cache, class cache, compaction)", "Basis", "MeshBasis", "Perm", "MeshPatt"],
    "simulated": ["the caller: seeded choice of which live iterator advances and when (cooperative tasks)",
                  "history faults: clear_cache, re-creation, dropped references + gc.collect, other classes"],
}
ASSUMPTIONS = [
    "reference = brute-force avoider sets on plain tuples (ref/classes.py)",
    "order within a level is not part of the property and is not checked",
]
EXPECTED_PROBES = ["guided_interrupt", "iter_resumed_after_deeper_build", "iter_resumed_after_clear_cache", "iter_resumed_after_recreate",
                   "below_compacted_depth", "jump_ahead_3", "mesh_basis", "two_classes_interleaved",
                   "basis_elem_of_new_length", "empty_level_reached", "long_membership_on_fresh_object",
                   "is_subclass", "first_iter", "interrupted_call", "class_object_address_reused"]


def plan(tier):
    if tier == "quick":
        return {"runs": 24000, "chunk": 50, "wall_cap": 150}
    return {"runs": 400000, "chunk": 400, "wall_cap": 900}


def prepare(tier):  # pylint: disable=unused-argument
    RC.self_check()
    common.isolate_locks()


def _limits(tier):
    if tier == "quick":
        return {"cmax": 6, "mmax": 5, "cap": 220, "ref_max_c": 7, "ref_max_m": 5}
    return {"cmax": 7, "mmax": 6, "cap": 900, "ref_max_c": 8, "ref_max_m": 6}


def _nmax(ref, hard, cap):
    n = 0
    for i in range(hard + 1):
        if RC.count(ref, i) <= cap:
            n = i
        else:
            break
    return n


def _gen_class(rng, lim, related_to=None):
    if rng.random() < 0.05:
        # swarm: a few classes are followed one or two levels deeper than the bulk
        lim = dict(lim, cmax=lim["cmax"] + 2, ref_max_c=lim["ref_max_c"] + 1, mmax=lim["mmax"] + 1, ref_max_m=lim["ref_max_m"] + 1,
                   cap=max(60, lim["cap"] // 3))
    if related_to is not None and rng.random() < 0.25:
        # same underlying permutations, other shadings (or none): classes that
        # must not be confused with each other
        items = []
        for it in related_to:
            if rng.random() < 0.5:
                items.append(["c", list(it[1])])
            else:
                items.append(["m", list(it[1]), common.rand_shading(rng, len(it[1]))])
    elif related_to is not None and rng.random() < 0.7:
        items = copy.deepcopy(related_to)
        if rng.random() < 0.6 or len(items) == 1:
            items.append(["c", common.rand_perm(rng, rng.choice([2, 3, 3, 4]))])
        else:
            del items[rng.randrange(len(items))]
    elif rng.random() < 0.35:
        items = common.gen_mesh_basis(rng)
    else:
        items = common.gen_classical_basis(rng, max_len=rng.choice([3, 4, 4, 5]))
    ref = common.to_ref(items)
    classical = RC.is_classical(ref)
    nmax = _nmax(ref, lim["cmax"] if classical else lim["mmax"], lim["cap"])
    return {"basis": items, "form": common.gen_form(rng, items), "nmax": max(1, nmax),
            "ref_max": lim["ref_max_c"] if classical else lim["ref_max_m"]}


def gen_large_case(rng):
    """Swarm: a large class (levels with hundreds to thousands of members) and a basis
    element one longer than the deepest level requested so far - size thresholds and
    'exactly the new length' cases that small classes never reach."""
    short = common.rand_perm(rng, 4)
    n_long = rng.choice([6, 7, 7])
    long_p = common.rand_perm(rng, n_long)
    for _ in range(20):
        if not RC.P.contains(tuple(long_p), tuple(short)):
            break
        long_p = common.rand_perm(rng, n_long)
    items = [["c", short], ["c", long_p]] if not RC.P.contains(tuple(long_p), tuple(short)) else [["c", long_p]]
    ops = [{"op": rng.choice(["count", "up_to_length", "enumeration"]), "cls": 0, "n": n_long - 1}]
    extra = [{"op": "contains", "cls": 0, "perm": list(long_p)},
             {"op": "is_subclass", "cls": 0, "other": [["c", list(long_p)]], "form": "list"},
             {"op": "is_subclass", "cls": 0, "other": items, "form": "list"},
             {"op": "contains", "cls": 0, "perm": common.rand_perm(rng, n_long)},
             {"op": "contains", "cls": 0, "perm": list(range(n_long))}]
    rng.shuffle(extra)
    ops.extend(extra[: rng.randint(2, 4)])
    ops.append({"op": "count", "cls": 0, "n": n_long})
    return {"classes": [{"basis": items, "form": "list", "nmax": n_long, "ref_max": n_long}], "ops": ops}


def gen_case(rng, tier):
    if rng.random() < 0.004:
        return gen_large_case(rng)
    lim = _limits(tier)
    ncls = rng.choice([1, 1, 2, 2, 3])
    classes = []
    for i in range(ncls):
        classes.append(_gen_class(rng, lim, classes[0]["basis"] if i and rng.random() < 0.5 else None))
    refs = [common.to_ref(c["basis"]) for c in classes]
    nops = rng.randint(5, 30) if rng.random() >= 0.03 else rng.randint(80, 200)  # swarm: a few long histories
    ops = []
    live = []
    next_iid = 0
    for _ in range(nops):
        c = rng.randrange(ncls)
        cls, ref = classes[c], refs[c]
        classical = RC.is_classical(ref)
        r = rng.random()
        if r < 0.45:
            others = [k["basis"] for j, k in enumerate(classes) if j != c] or None
            if others is None and rng.random() < 0.3:
                others = [common.gen_classical_basis(rng)]
            op = avops.gen_query(rng, ref, cls["nmax"], classical, True, others)
            op["cls"] = c
            if rng.random() < 0.08:
                # the call is interrupted (Ctrl-C, a signal, MemoryError ...) after that many
                # executed library lines; whatever it had done to the caches stays
                op["interrupt"] = int(10 ** rng.uniform(0, 3.7)) if rng.random() < 0.88 else {"guided": round(rng.random(), 3)}
            ops.append(op)
        elif r < 0.6:
            kind = rng.choice(["of_length", "of_length", "up_to_length", "first"])
            if kind == "first":
                total = sum(RC.count(ref, i) for i in range(cls["nmax"] + 1))
                arg = rng.randint(0, max(1, total))
            else:
                arg = max(0, cls["nmax"] - rng.choice([0, 0, 1, 2]))
            ops.append({"op": "iter_new", "cls": c, "kind": kind, "arg": arg, "id": next_iid})
            live.append(next_iid)
            next_iid += 1
        elif r < 0.8 and live:
            iid = rng.choice(live)
            rr = rng.random()
            if rr < 0.65:
                ops.append({"op": "iter_step", "id": iid, "k": rng.choice([1, 1, 2, 3, 5, 10, 40])})
            elif rr < 0.85:
                ops.append({"op": "iter_drain", "id": iid})
                live.remove(iid)
            elif rr < 0.93:
                ops.append({"op": "iter_close", "id": iid})
                live.remove(iid)
            else:
                ops.append({"op": "iter_abandon", "id": iid})
                live.remove(iid)
        else:
            rr = rng.random()
            if rr < 0.3:
                ops.append({"op": "clear_cache"})
            elif rr < 0.55:
                ops.append({"op": "recreate", "cls": c, "form": common.gen_form(rng, cls["basis"]), "salt": rng.randint(0, 3)})
            elif rr < 0.75:
                other = common.gen_classical_basis(rng) if rng.random() < 0.7 else common.gen_mesh_basis(rng, max_patts=1)
                ops.append({"op": "other_class", "basis": other, "form": common.gen_form(rng, other), "n": rng.randint(0, 4)})
            elif rr < 0.84:
                ops.append({"op": "drop", "cls": c})
            elif rr < 0.9:
                ops.append({"op": "recycle", "n": rng.randint(0, 3), "mode": rng.choice(["plain", "stale_after_clear"])})
            else:
                ops.append({"op": "gc"})
    for iid in live:
        if rng.random() < 0.6:
            ops.append({"op": "iter_drain", "id": iid})
    return {"classes": classes, "ops": ops}


def cases(rng, tier):
    yield gen_case(rng, tier)


# --- execution ----------------------------------------------------------------------


def _PREFIX():  # noqa: N802
    import os  # pylint: disable=import-outside-toplevel

    return [os.path.join(core.repo_dir(), "permuta") + os.sep]


def _traits(ref):
    return {"mesh": not RC.is_classical(ref),
            "zero_len_mesh": any(it[0] == "m" and len(it[1]) == 0 for it in ref)}


def _check_iter(hist, li, ref, ref_max, traits):
    """Prefix / completion oracle for a live iterator."""
    kind, arg = li.meta["kind"], li.meta["arg"]
    if li.error is not None:
        hist.violate("exception", dict(traits, op=f"iter:{kind}", type=li.error[0]), f"iterator {li.iid} raised {li.error}")
        return
    items = [tuple(p) for p in li.items]
    pseudo = {"op": kind}
    if len(set(items)) != len(items):
        hist.violate("wrong_answer", dict(traits, op=f"iter:{kind}", what="duplicate"), f"iterator {li.iid} yielded a permutation twice")
        return
    if kind == "of_length":
        n = arg
        if n > ref_max:
            return
        want = RC.level(ref, n)
        bad = [p for p in items if p not in want]
        if bad:
            hist.violate("wrong_answer", dict(traits, op="iter:of_length"), f"of_length({n}) yielded non-member {bad[0]}")
        elif li.exhausted and set(items) != want:
            hist.violate("wrong_answer", dict(traits, op="iter:of_length"),
                         f"of_length({n}) exhausted with {len(items)} of {len(want)} members, missing {sorted(want - set(items))[:3]}")
        return
    if kind == "up_to_length":
        if arg > ref_max:
            return
        if li.exhausted:
            bad = avops.check_levels(ref, pseudo, li.items, arg)
        else:
            # a prefix: every item is a member of length <= arg (order is not promised)
            bad = None
            for p in items:
                if len(p) > arg or p not in RC.level(ref, len(p)):
                    bad = ("wrong_answer", {"op": "up_to_length"}, f"{p} is not a member of length <= {arg}")
                    break
        if bad:
            hist.violate(bad[0], dict(traits, **dict(bad[1], op="iter:up_to_length")), f"up_to_length({arg}): {bad[2]}")
        return
    if kind == "first":
        if li.exhausted:
            bad = avops.check_query(ref, {"op": "first", "k": arg}, ["v", li.items], ref_max)
            if bad:
                hist.violate(bad[0], dict(traits, **dict(bad[1], op="first")), bad[2])
        else:
            if len(items) > arg:
                hist.violate("wrong_answer", dict(traits, op="first"), f"first({arg}) yielded more than {arg} items")
                return
            for p in items:
                if len(p) <= ref_max and p not in RC.level(ref, len(p)):
                    hist.violate("wrong_answer", dict(traits, op="first"), f"first({arg}) yielded non-member {p}")
                    return


def _depth(av):
    try:
        return len(av.cache)
    except Exception:  # pylint: disable=broad-except
        return None


def execute(case):
    pm = common.lazy_permuta()
    for lock in common.isolate_locks():
        lock._reset()  # pylint: disable=protected-access
    hist = histsim.Hist()
    out = hist.out
    pm.Av.clear_cache()
    classes = case["classes"]
    refs = [common.to_ref(c["basis"]) for c in classes]
    traits = [_traits(r) for r in refs]
    handles = [None] * len(classes)
    touched = {}  # class index -> counter of ops that touched it
    epoch = {"clear": 0, "recreate": [0] * len(classes)}
    last_cls = None
    abst = []

    def handle(c):
        if handles[c] is None:
            handles[c] = common.mk_av(classes[c]["basis"], classes[c]["form"])
        return handles[c]

    for r in refs:
        if not RC.is_classical(r):
            out.probe("mesh_basis")
            break

    for idx, op in enumerate(case["ops"]):
        hist.op_index = idx
        kind = op["op"]
        c = op.get("cls")
        if c is not None and c >= len(classes):
            continue
        if kind in ("count", "enumeration", "contains", "of_length", "up_to_length", "first", "is_subclass"):
            av = handle(c)
            depth = _depth(av)
            n = op.get("n")
            if kind == "contains":
                n = len(op["perm"])
                if depth == 1 and n >= 4:
                    out.probe("long_membership_on_fresh_object")
            rel = "?"
            if depth is not None and n is not None:
                if n < depth - 2:
                    out.probe("below_compacted_depth")
                    out.nontrivial = True
                    rel = "below"
                elif n >= depth + 2:
                    out.probe("jump_ahead_3")
                    out.nontrivial = True
                    rel = "jump"
                elif n >= depth:
                    rel = "next"
                else:
                    rel = "cached"
                if n >= depth and any(it[0] == "c" and depth <= len(it[1]) <= n for it in refs[c]):
                    out.probe("basis_elem_of_new_length")
            if kind == "is_subclass":
                out.probe("is_subclass")
            if last_cls is not None and last_cls != c:
                out.probe("two_classes_interleaved")
            last_cls = c
            if op.get("interrupt"):
                at = op["interrupt"]
                if isinstance(at, dict):
                    at = histsim.guided_interrupt_at(lambda: avops.run_query(av, op), _PREFIX(), at["guided"])
                    out.probe("guided_interrupt" if at else "guided_interrupt_no_state_change")
                status, resp, _n = histsim.run_interruptible(lambda: avops.run_query(av, op), at or 10 ** 9, _PREFIX())
                if status == "interrupted":
                    out.fault("interrupted_call")
                    out.probe("interrupted_call")
                    out.nontrivial = True
                    touched[c] = touched.get(c, 0) + 1
                    hist.log.add("q", idx, kind, c, "interrupted")
                    abst.append((kind, c, "interrupted"))
                    continue
            else:
                resp = avops.run_query(av, op)
            touched[c] = touched.get(c, 0) + 1
            hist.log.add("q", idx, kind, c, core.canon(resp))
            abst.append((kind, c, rel))
            if resp[0] == "v" and kind == "count" and resp[1] == 0:
                out.probe("empty_level_reached")
            bad = avops.check_query(refs[c], op, resp, classes[c]["ref_max"])
            if bad:
                hist.violate(bad[0], dict(traits[c], **bad[1]), f"{op}: {bad[2]}")
        elif kind == "iter_new":
            av = handle(c)
            ikind, arg = op["kind"], op["arg"]
            if ikind == "of_length":
                make = lambda av=av, arg=arg: av.of_length(arg)  # noqa: E731
            elif ikind == "up_to_length":
                make = lambda av=av, arg=arg: av.up_to_length(arg)  # noqa: E731
            else:
                make = lambda av=av, arg=arg: av.first(arg)  # noqa: E731
                out.probe("first_iter")
            li = hist.new_iter(op["id"], make, {"kind": ikind, "arg": arg, "cls": c, "touched": touched.get(c, 0),
                                                "clear": epoch["clear"], "recreate": epoch["recreate"][c],
                                                "depth": _depth(av)}, conv=tuple)
            touched[c] = touched.get(c, 0) + 1
            li.meta["touched"] = touched[c]
            abst.append(("iter_new", c, ikind))
            _check_iter(hist, li, refs[c], classes[c]["ref_max"], traits[c])
        elif kind in ("iter_step", "iter_drain"):
            li = hist.iters.get(op["id"])
            if li is None or li.exhausted or li.closed:
                continue
            c = li.meta["cls"]
            if touched.get(c, 0) > li.meta["touched"]:
                out.nontrivial = True  # something else touched the class since this iterator last ran
            av = handles[c]
            if av is not None and li.meta["depth"] is not None and (_depth(av) or 0) > li.meta["depth"]:
                out.probe("iter_resumed_after_deeper_build")
                out.nontrivial = True
            if epoch["clear"] != li.meta["clear"]:
                out.probe("iter_resumed_after_clear_cache")
                out.nontrivial = True
            if epoch["recreate"][c] != li.meta["recreate"]:
                out.probe("iter_resumed_after_recreate")
                out.nontrivial = True
            hist.step(op["id"], op["k"] if kind == "iter_step" else 10 ** 9)
            touched[c] = touched.get(c, 0) + 1
            li.meta["touched"] = touched[c]
            abst.append((kind, c))
            _check_iter(hist, li, refs[c], classes[c]["ref_max"], traits[c])
        elif kind == "iter_close":
            hist.close(op["id"])
        elif kind == "iter_abandon":
            hist.abandon(op["id"])
        elif kind == "clear_cache":
            pm.Av.clear_cache()
            epoch["clear"] += 1
            out.fault("clear_cache")
            hist.log.add("clear_cache", idx)
            abst.append(("clear",))
        elif kind == "recreate":
            handles[c] = common.mk_av(classes[c]["basis"], op["form"], op["salt"])
            epoch["recreate"][c] += 1
            out.fault("recreate")
            hist.log.add("recreate", idx, c, op["form"])
            abst.append(("recreate", c))
        elif kind == "other_class":
            other = common.mk_av(op["basis"], op["form"])
            oref = common.to_ref(op["basis"])
            qop = {"op": "count", "n": op["n"]}
            resp = avops.run_query(other, qop)
            out.fault("other_class")
            hist.log.add("other", idx, core.canon(resp))
            bad = avops.check_query(oref, qop, resp, 6)
            if bad:
                hist.violate(bad[0], dict(_traits(oref), **bad[1]), f"other class {op['basis']}: {bad[2]}")
        elif kind == "drop":
            handles[c] = None
            gc.collect()
            out.fault("drop_reference")
            hist.log.add("drop", idx, c)
        elif kind == "recycle":
            # Class objects are created, used, dropped for good (handles, class cache, gc) and
            # created again by exactly the same code path: the allocator then hands the freed
            # blocks to the new objects (in another order), so anything remembered per object
            # identity is now attached to another class.  Variant stale_after_clear: the class
            # cache is cleared while the old objects are still held and go one level deeper
            # (they re-register whatever is kept per object), and only then are they dropped.
            for ci in range(len(handles)):
                handles[ci] = None
            pm.Av.clear_cache()
            gc.collect()
            first = [common.mk_av(c["basis"], "list") for c in classes]
            old_ids = {id(h): ci for ci, h in enumerate(first)}
            av_items = tuple.__len__(first[0]) if first and isinstance(first[0], tuple) else None
            for ci, h in enumerate(first):
                avops.run_query(h, {"op": "count", "n": min(op["n"], classes[ci]["nmax"])})
            # built before the old objects are freed: basis elements of length 2-3 are of the
            # size class of a class object and would settle in the freed blocks
            new_bases = [common.mk_basis_obj(c["basis"]) for c in classes]
            if op.get("mode") == "stale_after_clear":
                pm.Av.clear_cache()
                for ci, h in enumerate(first):
                    avops.run_query(h, {"op": "count", "n": min(op["n"] + 1, classes[ci]["nmax"])})
                del first, h
            else:
                del first, h
                pm.Av.clear_cache()
            gc.collect()
            epoch["clear"] += 1
            order = list(range(len(classes)))
            order = order[1:] + order[:1]
            for ci in order:
                # the freed blocks sit somewhere down the allocator's free list: dig for one
                # (allocsim.aim) so that the new class object really is allocated where an old
                # one - of another class whenever there is a choice - used to be
                wanted = {a for a, owner in old_ids.items() if owner != ci} or set(old_ids)
                _addr, held = allocsim.aim(pm.Av, av_items, wanted)
                held[-1] = None
                handles[ci] = pm.Av(new_bases[ci])
                del held
                out.probe("recycled_class_object_created")
                if _addr is None:
                    out.probe("aim_found_no_freed_block")
                if id(handles[ci]) in old_ids:
                    out.probe("class_object_address_reused")
                    if old_ids.pop(id(handles[ci])) != ci:
                        out.probe("class_object_at_address_of_another_class")
            out.fault("recycle_class_objects")
            hist.log.add("recycle", idx)
            for ci in order:
                for n in sorted({min(op["n"], classes[ci]["nmax"]), min(op["n"] + 1, classes[ci]["nmax"])}):
                    qop = {"op": "count", "n": n}
                    resp = avops.run_query(handles[ci], qop)
                    bad = avops.check_query(refs[ci], qop, resp, classes[ci]["ref_max"])
                    if bad:
                        hist.violate(bad[0], dict(traits[ci], **dict(bad[1], after="recycle")), f"after recycling the class objects, {qop} on class {ci}: {bad[2]}")
                        break
                if hist.violations:
                    break
        elif kind == "gc":
            gc.collect()
            out.fault("gc_collect")
            hist.log.add("gc", idx)
        if hist.violations:
            break
    out.abstraction = str(hash(tuple(abst)))
    return hist.finish()


# --- minimisation -------------------------------------------------------------------


def shrink_targets(case):  # pylint: disable=unused-argument
    return [["ops"]]


def simplify(case):
    for i, op in enumerate(case["ops"]):
        for field in ("n", "arg", "k"):
            if isinstance(op.get(field), int) and op[field] > 0:
                c = copy.deepcopy(case)
                c["ops"][i][field] = op[field] - 1
                yield c
    for ci, cls in enumerate(case["classes"]):
        if len(cls["basis"]) > 1:
            for j in range(len(cls["basis"])):
                c = copy.deepcopy(case)
                del c["classes"][ci]["basis"][j]
                yield c
        if cls["form"] not in ("list",):
            c = copy.deepcopy(case)
            c["classes"][ci]["form"] = "list"
            yield c
    used = {op.get("cls") for op in case["ops"] if op.get("cls") is not None}
    if len(case["classes"]) > 1 and (len(case["classes"]) - 1) not in used:
        c = copy.deepcopy(case)
        c["classes"].pop()
        yield c
