"""Deterministic thread simulator.

Real Python threads, exactly one runnable at a time (baton passing on
per-thread semaphores).  Yield points are

  * every bytecode executed in a frame whose code lives in one of the traced
    directories (sys.settrace with f_trace_opcodes) -- for Permuta that is
    permuta/perm_sets, the only code touching state shared between threads;
  * lock acquire / release (SimLock);
  * explicit points in harness code (thread start, between items consumed from
    a library iterator).

At every yield point a *policy* decides whether another thread gets the baton.
In generation mode the policy draws from a random.Random built from the seed in
the case; what it decided is recorded as segments (tid, n) -- "thread tid ran
for n yield points (a block or exit counts as one)".  In replay mode
SegmentPolicy re-executes a segment list with no PRNG at all; every edit of a
segment list is still a valid schedule, which is what the minimiser relies on.

A thread that has run QUANTUM yield points in a row while another is ready is
pre-empted by every policy (the GIL would do the same), so spin-waiting code is
not reported as stuck; exceeding the step budget under that fair regime is
reported as no progress.
"""
import os
import sys
import threading

QUANTUM = 20000


class SimAbort(BaseException):
    """Unwinds a simulated thread when the run is being torn down."""


_CURRENT = None  # the Sched of the run in progress in this process, or None


def current_sched():
    return _CURRENT


_WARM = False


def warm_up_opcode_tracing():
    """CPython 3.12 enables per-instruction events interpreter-wide the first
    time some frame sets f_trace_opcodes, and code already running is only
    re-instrumented at its next RESUME.  Without this warm-up the first
    simulated run of a process would see fewer yield points than every later
    one (and than its own replay)."""
    global _WARM
    if _WARM:
        return
    _WARM = True

    def victim():
        return [i for i in range(3)]

    def tracer(frame, _event, _arg):
        frame.f_trace_opcodes = True
        return tracer

    old = sys.gettrace()
    sys.settrace(tracer)
    try:
        victim()
    finally:
        sys.settrace(old)


class _T:
    __slots__ = ("tid", "sem", "state", "fn", "exc", "aborted", "thread", "run_len")

    def __init__(self, tid, fn):
        self.tid = tid
        self.sem = threading.Semaphore(0)
        self.state = "ready"  # ready | blocked | done
        self.fn = fn
        self.exc = None
        self.aborted = False
        self.thread = None
        self.run_len = 0


class Sched:
    def __init__(self, policy, trace_prefixes, log, max_steps=3_000_000):
        warm_up_opcode_tracing()
        self.policy = policy
        self.trace_prefixes = tuple(trace_prefixes)
        self.log = log
        self.max_steps = max_steps
        self.threads = {}
        self.order = []
        self.current = None
        self.steps = 0
        self.switches = 0
        self.seg_n = 0
        self.run_len = 0  # consecutive yps of current thread (fairness)
        self.segments = []
        self.abort = None  # None | "deadlock" | "budget"
        self.abort_steps = 0
        self.parked = 0
        self.watch_names = frozenset()
        self.inside_watched = 0
        self.done_evt = threading.Event()
        self._code_cache = {}
        self.counters = {}
        self.lock_holder_preempts = 0
        self.held_locks = 0  # number of SimLocks currently owned by anyone

    # -- bookkeeping -------------------------------------------------------
    def count(self, name, n=1):
        self.counters[name] = self.counters.get(name, 0) + n

    def ready(self):
        return [t for t in self.order if self.threads[t].state == "ready"]

    def spawn(self, tid, fn):
        t = _T(tid, fn)
        self.threads[tid] = t
        self.order.append(tid)

        def body():
            t.sem.acquire()
            if self.abort is None:
                sys.settrace(self._make_tracer(tid))
                try:
                    try:
                        fn(tid)
                    except SimAbort:
                        t.aborted = True
                    except BaseException as exc:  # pylint: disable=broad-except
                        t.exc = exc
                finally:
                    sys.settrace(None)
            else:
                t.aborted = True
            t.state = "done"
            self._exit(tid)

        threading.stack_size(1 << 20)
        t.thread = threading.Thread(target=body, daemon=True, name=f"sim-{tid}")
        t.thread.start()

    def _traced(self, code):
        res = self._code_cache.get(code)
        if res is None:
            fname = code.co_filename
            res = fname.startswith(self.trace_prefixes)
            self._code_cache[code] = res
        return res

    def _make_tracer(self, tid):
        sched = self

        watch = self.watch_names

        def local(frame, event, _arg):
            if event == "opcode":
                sched.yp(tid, "op", frame)
            elif event == "return" and frame.f_code.co_name in watch and not (frame.f_code.co_flags & 0x20):
                sched.inside_watched -= 1
            return local

        def glob(frame, event, _arg):
            if event == "call" and sched._traced(frame.f_code):
                frame.f_trace_opcodes = True
                if frame.f_code.co_name in watch and not (frame.f_code.co_flags & 0x20):
                    # white-box probe only (never a verdict): how many threads are inside the
                    # watched functions at once
                    sched.inside_watched += 1
                    if sched.inside_watched > 1:
                        sched.count("two_threads_inside_watched_function")
                return local
            return None

        return glob

    # -- the yield point ---------------------------------------------------
    def yp(self, tid, kind, frame=None):
        if self.abort is not None:
            self._aborting(tid, kind)
            return
        self.steps += 1
        self.seg_n += 1
        self.run_len += 1
        if self.steps > self.max_steps:
            self.abort = "budget"
            self._aborting(tid, kind)
            return
        nxt = self.policy.decide(self, tid, kind, frame)
        if nxt is not None and nxt != tid:
            self._switch(tid, nxt, kind)
            return
        if self.run_len >= QUANTUM:
            ready = [t for t in self.ready() if t != tid]
            if ready:
                # fairness pre-emption, as the GIL would do
                nxt = self.policy.forced(self, tid, ready)
                self.count("forced_preempt")
                self._switch(tid, nxt, "quantum")
            else:
                self.run_len = 0

    def _close_segment(self, tid):
        self.segments.append([tid, self.seg_n])
        self.seg_n = 0
        self.run_len = 0

    def _switch(self, tid, nxt, why):
        if self.held_locks:
            self.lock_holder_preempts += 1
        self._close_segment(tid)
        self.switches += 1
        self.log.add("sw", self.steps, tid, nxt, why)
        self.current = nxt
        self.threads[nxt].sem.release()
        self.threads[tid].sem.acquire()
        if self.abort is not None:
            self._aborting(tid, why)

    def _aborting(self, tid, kind):
        """The run is being torn down.  CPython 3.12.1 crashes when a trace
        function raises inside an inlined comprehension (it keeps executing
        instrumented clean-up instructions with a NULL trace function), so a
        thread that is inside the tracer is never unwound by an exception from
        there: it runs on, alone, until its next explicit yield point (lock
        operation or harness code) and is unwound from that one; if it does not
        get there soon it is parked for good."""
        if kind not in ("op", "quantum"):
            raise SimAbort()
        self.abort_steps += 1
        if self.abort_steps > 100_000:
            self._park_forever(tid)

    def _park_forever(self, tid):
        t = self.threads[tid]
        t.state = "parked"
        t.aborted = True
        self.parked += 1
        self._exit(tid)
        threading.Semaphore(0).acquire()

    def block(self, tid):
        """The current thread cannot proceed (lock held by another)."""
        self.seg_n += 1
        ready = self.ready()
        if not ready:
            self.abort = "deadlock"
            raise SimAbort()  # called from SimLock.acquire, never from the tracer
        nxt = self.policy.pick(self, ready, "block")
        self._switch(tid, nxt, "block")

    def _exit(self, tid):
        self.seg_n += 1
        self._close_segment(tid)
        self.log.add("exit", self.steps, tid)
        if self.abort is None:
            ready = self.ready()
            if ready:
                nxt = self.policy.pick(self, ready, "exit")
            elif all(t.state in ("done", "parked") for t in self.threads.values()):
                self.done_evt.set()
                return
            else:
                self.abort = "deadlock"
                nxt = None
        else:
            nxt = None
        if nxt is None:
            alive = [t for t in self.order if self.threads[t].state not in ("done", "parked")]
            if not alive:
                self.done_evt.set()
                return
            nxt = alive[0]
        self.current = nxt
        self.threads[nxt].sem.release()

    # -- running -----------------------------------------------------------
    def run(self, wall_timeout=120):
        global _CURRENT
        if not self.order:
            return
        _CURRENT = self
        try:
            first = self.policy.pick(self, self.ready(), "start")
            self.current = first
            self.log.add("start", first)
            self.threads[first].sem.release()
            if not self.done_evt.wait(wall_timeout):
                raise TimeoutError("threadsim: harness stall")
            for t in self.threads.values():
                if t.state != "parked":
                    t.thread.join(5)
        finally:
            _CURRENT = None


# --- locks --------------------------------------------------------------


class SimLock:
    """Stands in for threading/multiprocessing Lock and RLock.  Outside a
    simulation it is an ordinary uncontended lock."""

    def __init__(self, reentrant=False, name=""):
        self.reentrant = reentrant
        self.name = name
        self.owner = None
        self.depth = 0
        self.waiters = []

    def acquire(self, blocking=True, timeout=-1):  # pylint: disable=unused-argument
        s = _CURRENT
        if s is None or threading.current_thread().name[:4] != "sim-":
            if self.owner is not None and not (self.reentrant and self.owner == "main"):
                if not blocking:
                    return False
                raise RuntimeError("self-deadlock: a non-reentrant lock is acquired again by the thread that already holds it "
                                   "(with a real lock this call would block forever)")
            self.owner = "main"
            self.depth += 1
            return True
        tid = s.current
        s.yp(tid, "acq")
        if self.reentrant and self.owner == tid:
            self.depth += 1
            return True
        contended = False
        while self.owner is not None:
            if not blocking:
                return False
            contended = True
            s.threads[tid].state = "blocked"
            self.waiters.append(tid)
            s.count("lock_block")
            s.block(tid)
        if contended:
            s.count("contended_acquire")
        self.owner = tid
        self.depth = 1
        s.held_locks += 1
        s.count("lock_acquire")
        s.log.add("acq", tid, self.name)
        return True

    def release(self):
        s = _CURRENT
        if s is None or threading.current_thread().name[:4] != "sim-":
            self.depth -= 1
            if self.depth <= 0:
                self.owner = None
                self.depth = 0
            return
        tid = s.current
        if self.owner != tid:
            raise RuntimeError("release of a lock not owned")
        self.depth -= 1
        if self.depth > 0:
            return
        self.owner = None
        s.held_locks -= 1
        for w in self.waiters:
            if s.threads[w].state == "blocked":
                s.threads[w].state = "ready"
        if self.waiters:
            s.count("lock_handoff")
        self.waiters = []
        s.log.add("rel", tid, self.name)
        if s.abort is None:
            s.yp(tid, "rel")

    def locked(self):
        return self.owner is not None

    def __enter__(self):
        self.acquire()
        return self

    def __exit__(self, *exc):
        self.release()
        return False

    def _reset(self):
        self.owner = None
        self.depth = 0
        self.waiters = []


class _LockModuleShim:
    """Stands in for the `threading` / `multiprocessing` module object inside
    the traced modules' globals: Lock()/RLock() give SimLocks, everything else
    is delegated."""

    def __init__(self, real, registry):
        self.__dict__["_real"] = real
        self.__dict__["_registry"] = registry

    def Lock(self, *a, **k):  # noqa: N802  pylint: disable=invalid-name,unused-argument
        lock = SimLock(False, "dyn")
        self._registry.append(lock)
        return lock

    def RLock(self, *a, **k):  # noqa: N802  pylint: disable=invalid-name,unused-argument
        lock = SimLock(True, "dyn")
        self._registry.append(lock)
        return lock

    def __getattr__(self, name):
        return getattr(self._real, name)


def install_sim_locks(modules):
    """Replace every lock reachable from the given modules (globals and class
    attributes) by a SimLock and the lock-providing modules / factories by
    shims.  Returns the list of installed SimLocks."""
    import multiprocessing  # pylint: disable=import-outside-toplevel
    import multiprocessing.synchronize as mpsync  # pylint: disable=import-outside-toplevel

    registry = []
    real_lock_types = (type(threading.Lock()), type(threading.RLock()), mpsync.Lock, mpsync.RLock)
    rlock_types = (type(threading.RLock()), mpsync.RLock)
    factories = {}
    for mod_, names in ((threading, ("Lock", "RLock")), (multiprocessing, ("Lock", "RLock"))):
        for nm in names:
            factories[getattr(mod_, nm)] = nm == "RLock"

    def convert(val, label):
        if isinstance(val, real_lock_types):
            lock = SimLock(isinstance(val, rlock_types), label)
            registry.append(lock)
            return lock
        if val is threading or val is multiprocessing:
            return _LockModuleShim(val, registry)
        try:
            if val in factories:
                reentrant = factories[val]

                def factory(*a, _r=reentrant, **k):  # pylint: disable=unused-argument
                    lock = SimLock(_r, "dyn")
                    registry.append(lock)
                    return lock

                return factory
        except TypeError:
            pass
        return None

    modnames = {m.__name__ for m in modules}

    def convert_attrs(obj, label):
        """Locks held in the attributes of a module-level object of a class of these modules
        (a memo object with its own lock, a registry ...)."""
        names = list(getattr(obj, "__dict__", {}) or {})
        for klass in type(obj).__mro__:
            slots = klass.__dict__.get("__slots__", ())
            names.extend([slots] if isinstance(slots, str) else list(slots))
        for an in names:
            try:
                aval = getattr(obj, an)
            except AttributeError:
                continue
            anew = convert(aval, f"{label}.{an}") if isinstance(aval, real_lock_types) else None
            if anew is not None:
                try:
                    object.__setattr__(obj, an, anew)
                except (AttributeError, TypeError):
                    pass

    for mod in modules:
        for name, val in list(vars(mod).items()):
            new = convert(val, f"{mod.__name__}.{name}")
            if new is not None:
                setattr(mod, name, new)
            elif isinstance(val, type) and getattr(val, "__module__", None) == mod.__name__:
                for cname, cval in list(vars(val).items()):
                    cnew = convert(cval, f"{val.__name__}.{cname}")
                    if cnew is not None:
                        setattr(val, cname, cnew)
                    elif not isinstance(cval, type) and getattr(type(cval), "__module__", None) in modnames:
                        convert_attrs(cval, f"{val.__name__}.{cname}")
            elif not isinstance(val, type) and getattr(type(val), "__module__", None) in modnames:
                convert_attrs(val, f"{mod.__name__}.{name}")
    return registry


# --- policies ---------------------------------------------------------------


class Policy:
    """Base: never pre-empts voluntarily; picks the lowest ready tid."""

    def decide(self, sched, tid, kind, frame):  # pylint: disable=unused-argument
        return None

    def pick(self, sched, ready, why):  # pylint: disable=unused-argument
        return ready[0]

    def forced(self, sched, tid, ready):  # pylint: disable=unused-argument
        later = [t for t in ready if t > tid]
        return later[0] if later else ready[0]


class SequentialPolicy(Policy):
    """Threads run one after another in the given order."""

    def __init__(self, order):
        self.order_ = list(order)

    def pick(self, sched, ready, why):
        for t in self.order_:
            if t in ready:
                return t
        return ready[0]


class RandomWalkPolicy(Policy):
    """Pre-empt at each yield point with probability p (higher at explicit
    points: lock operations, iterator consumption)."""

    def __init__(self, rng, p, p_explicit=None):
        self.rng = rng
        self.p = p
        self.pe = p if p_explicit is None else p_explicit

    def decide(self, sched, tid, kind, frame):
        p = self.p if kind == "op" else self.pe
        if self.rng.random() < p:
            ready = [t for t in sched.ready() if t != tid]
            if ready:
                return ready[self.rng.randrange(len(ready))]
        return None

    def pick(self, sched, ready, why):
        return ready[self.rng.randrange(len(ready))]


class EdgePolicy(Policy):
    """Pre-empt mostly at interesting points: lock acquire/release, the few
    bytecodes after a release (between unlock and the unlocked read), function
    entries in traced code, iterator consumption."""

    def __init__(self, rng, p_edge, p_base, window=14):
        self.rng = rng
        self.p_edge = p_edge
        self.p_base = p_base
        self.window = window
        self.after_rel = {}

    def decide(self, sched, tid, kind, frame):
        if kind == "rel":
            self.after_rel[tid] = self.window
            p = self.p_edge
        elif kind != "op":
            p = self.p_edge
        else:
            left = self.after_rel.get(tid, 0)
            if left > 0:
                self.after_rel[tid] = left - 1
                p = self.p_edge
            elif frame is not None and frame.f_lasti <= 4:
                p = self.p_edge / 2
            else:
                p = self.p_base
        if p and self.rng.random() < p:
            ready = [t for t in sched.ready() if t != tid]
            if ready:
                return ready[self.rng.randrange(len(ready))]
        return None

    def pick(self, sched, ready, why):
        return ready[self.rng.randrange(len(ready))]


class PCTPolicy(Policy):
    """PCT: random thread priorities, d priority-change points at step indices
    drawn uniformly below est_len; always run the highest-priority ready
    thread."""

    def __init__(self, rng, tids, est_len, depth):
        self.rng = rng
        prios = list(range(depth + 1, depth + 1 + len(tids)))
        rng.shuffle(prios)
        self.prio = dict(zip(tids, prios))
        self.change = sorted(rng.randrange(max(1, est_len)) for _ in range(depth))
        self.next_low = depth

    def _best(self, ready):
        return max(ready, key=lambda t: self.prio.get(t, 0))

    def decide(self, sched, tid, kind, frame):
        if self.change and sched.steps >= self.change[0]:
            self.change.pop(0)
            self.prio[tid] = self.next_low
            self.next_low -= 1
        ready = sched.ready()
        best = self._best(ready) if ready else tid
        if best != tid and self.prio.get(best, 0) > self.prio.get(tid, 0):
            return best
        return None

    def pick(self, sched, ready, why):
        return self._best(ready)

    def forced(self, sched, tid, ready):
        # a spinning top-priority thread: demote it
        self.prio[tid] = self.next_low
        self.next_low -= 1
        return self._best(ready)


class PublishPolicy(Policy):
    """Pre-empt right after the running thread changed shared state: `watch()` returns
    (structural, fine) fingerprints of the state the threads share (number of levels /
    identity of containers; sizes of the newest containers).  A change between two yield
    points was made by the thread that ran in between, so switching away at once puts the
    other threads into the window in which something has been published and not yet
    completed.  The thread switched to then runs a burst undisturbed."""

    def __init__(self, rng, watch, p_struct, p_fine, p_base, burst):
        self.rng = rng
        self.watch = watch
        self.p_struct, self.p_fine, self.p_base, self.burst = p_struct, p_fine, p_base, burst
        self.last = None
        self.quiet = 0

    def decide(self, sched, tid, kind, frame):
        try:
            fp = self.watch()
        except Exception:  # pylint: disable=broad-except
            fp = self.last
        last, self.last = self.last, fp
        if last is None or fp == last:
            if self.quiet > 0:
                self.quiet -= 1
                return None
            p = self.p_base
        elif fp[0] != last[0]:
            p = self.p_struct
            sched.count("preempt_after_publication_candidates")
        else:
            p = self.p_fine
        if p and self.rng.random() < p:
            ready = [t for t in sched.ready() if t != tid]
            if ready:
                if fp != last:
                    sched.count("preempt_right_after_shared_state_change")
                self.quiet = self.burst
                return ready[self.rng.randrange(len(ready))]
        return None

    def pick(self, sched, ready, why):
        return ready[self.rng.randrange(len(ready))]


class StallPolicy(RandomWalkPolicy):
    """Random walk in which one thread is descheduled (a slow node) for a long
    stretch of global steps whenever somebody else can run."""

    def __init__(self, rng, p, victim, stall_from, stall_len):
        super().__init__(rng, p)
        self.victim = victim
        self.lo = stall_from
        self.hi = stall_from + stall_len

    def _stalled(self, sched):
        return self.lo <= sched.steps < self.hi

    def decide(self, sched, tid, kind, frame):
        if self._stalled(sched):
            if tid == self.victim:
                ready = [t for t in sched.ready() if t != tid]
                if ready:
                    return ready[self.rng.randrange(len(ready))]
                return None
            if self.rng.random() < self.p:
                ready = [t for t in sched.ready() if t not in (tid, self.victim)]
                if ready:
                    return ready[self.rng.randrange(len(ready))]
            return None
        return super().decide(sched, tid, kind, frame)

    def pick(self, sched, ready, why):
        if self._stalled(sched):
            others = [t for t in ready if t != self.victim]
            if others:
                return others[self.rng.randrange(len(others))]
        return ready[self.rng.randrange(len(ready))]


class SegmentPolicy(Policy):
    """Replay of a recorded / edited segment list, no PRNG.  After the list is
    exhausted the ready threads run in tid order (with the fairness quantum)."""

    def __init__(self, segments):
        self.segs = [(int(t), int(n)) for t, n in segments]
        self.idx = -1
        self.remaining = 0
        self.fallback = not self.segs

    def _advance(self, sched, tid_running, ready):
        """Move to the next usable segment.  Returns the tid to run."""
        while True:
            self.idx += 1
            if self.idx >= len(self.segs):
                self.fallback = True
                return None
            t, n = self.segs[self.idx]
            if n <= 0:
                continue
            if t == tid_running or t in ready:
                self.remaining = n
                return t

    def decide(self, sched, tid, kind, frame):
        if self.fallback:
            return None
        self.remaining -= 1
        if self.remaining > 0:
            return None
        ready = [t for t in sched.ready() if t != tid]
        nxt = self._advance(sched, tid, ready)
        if nxt is None or nxt == tid:
            return None
        return nxt

    def pick(self, sched, ready, why):
        if not self.fallback:
            nxt = self._advance(sched, None, ready)
            if nxt is not None:
                return nxt
        return ready[0]


def trace_prefixes_for(repo, subdirs=("permuta/perm_sets",)):
    return [os.path.join(os.path.realpath(repo), d) + os.sep for d in subdirs] + [
        os.path.join(os.path.abspath(repo), d) + os.sep for d in subdirs
    ]
